"""In-memory model of the fact base: items, bodies, CFG, dominators, control dependence,
a readable pretty-printer and a small intra-procedural points-to analysis.

Nothing here parses Rust text; everything comes from the driver's JSON (MIR + typed HIR).
"""
import re
from collections import defaultdict

# ------------------------------------------------------------------------------- names


def strip_generics(s):
    """remove balanced <...> groups that are generic-argument lists (`::<..>`) and
    normalise `<impl X<..>>` segments to X's last path segment."""
    out = []
    i = 0
    n = len(s)
    while i < n:
        c = s[i]
        if c == "<":
            # find the matching '>'
            depth = 0
            j = i
            while j < n:
                if s[j] == "<":
                    depth += 1
                elif s[j] == ">" and (j == 0 or s[j - 1] != "-"):
                    depth -= 1
                    if depth == 0:
                        break
                j += 1
            inner = s[i + 1 : j]
            prev = "".join(out)[-1:] if out else ""
            if prev and (prev.isalnum() or prev == "_"):
                # generic arguments without turbofish: Graph<T, A> -> Graph
                i = j + 1
                continue
            if out and "".join(out).endswith("::"):
                if inner.startswith("impl "):
                    t = strip_generics(inner[5:])
                    t = t.split(" for ")[-1] if " for " in t else t
                    t = t.strip()
                    if t.startswith("["):
                        # slice impl: core::slice::<impl [T]>::iter -> core::slice::iter
                        out.append("")
                        # remove the trailing '::' duplication below
                        i = j + 1
                        if s[i : i + 2] == "::":
                            i += 2
                        continue
                    out.append(t.split("::")[-1])
                else:
                    # generic argument list: drop, and drop the '::' before it
                    cur = "".join(out)
                    out = [cur[:-2]]
            else:
                # qualified path <T as Trait>::m  -> keep trait, record self type
                m = inner
                if " as " in m:
                    # split at top-level ' as '
                    d = 0
                    k = 0
                    pos = -1
                    while k < len(m):
                        if m[k] == "<":
                            d += 1
                        elif m[k] == ">" and m[k - 1] != "-":
                            d -= 1
                        elif d == 0 and m.startswith(" as ", k):
                            pos = k
                        k += 1
                    if pos >= 0:
                        out.append(strip_generics(m[pos + 4 :]))
                    else:
                        out.append(strip_generics(m))
                else:
                    out.append(strip_generics(m))
            i = j + 1
            continue
        out.append(c)
        i += 1
    return "".join(out)


def short(path):
    return strip_generics(path)


# ------------------------------------------------------------------------------- places


class Place:
    __slots__ = ("local", "proj", "ty")

    def __init__(self, j):
        self.local = j["l"]
        self.proj = j["p"]
        self.ty = j["ty"]

    def is_local(self):
        return not self.proj

    def fields(self):
        """list of field names along the projection (ignoring derefs/downcasts/indices)"""
        return [e["f"] for e in self.proj if isinstance(e, dict) and "f" in e]

    def has_deref(self):
        return any(e == "*" for e in self.proj)

    def index_locals(self):
        return [e["idx"] for e in self.proj if isinstance(e, dict) and "idx" in e]

    def path(self):
        s = "_%d" % self.local
        for e in self.proj:
            if e == "*":
                s = "(*%s)" % s
            elif "f" in e:
                s += "." + e["f"]
            elif "idx" in e:
                s += "[_%d]" % e["idx"]
            elif "as" in e:
                s += " as " + e["as"]
            elif "cidx" in e:
                s += "[%d]" % e["cidx"]
            else:
                s += "{?}"
        return s

    def key(self):
        return self.path()

    def __repr__(self):
        return self.path()


class Operand:
    __slots__ = ("k", "place", "c")

    def __init__(self, j):
        self.k = j["k"]
        self.place = Place(j["place"]) if "place" in j else None
        self.c = j.get("c")

    def is_const(self):
        return self.k == "const"

    def const_str(self):
        return self.c["s"] if self.c else None

    def const_int(self):
        if self.c and "int" in self.c:
            return int(self.c["int"])
        return None

    def fn(self):
        if self.c and "fn" in self.c:
            return self.c["fn"]
        return None

    def __repr__(self):
        if self.k == "const":
            s = self.c["s"]
            return "const " + (s if len(s) < 80 else s[:77] + "...")
        return ("move " if self.k == "move" else "") + repr(self.place)


class Rvalue:
    __slots__ = ("k", "ops", "place", "j", "ty")

    def __init__(self, j):
        self.k = j["k"]
        self.j = j
        self.ty = j.get("ty")
        self.ops = [Operand(o) for o in j.get("ops", [])]
        self.place = Place(j["place"]) if "place" in j else None

    def __repr__(self):
        k = self.k
        if k == "use":
            return repr(self.ops[0])
        if k == "ref":
            return "&%s%r" % ("mut " if self.j["bk"] == "mut" else "", self.place)
        if k == "binop":
            return "%s(%r, %r)" % (self.j["op"], self.ops[0], self.ops[1])
        if k == "unop":
            return "%s(%r)" % (self.j["op"], self.ops[0])
        if k == "discr":
            return "discriminant(%r)" % self.place
        if k == "cast":
            return "%r as %s (%s)" % (self.ops[0], self.j["to"], self.j["ck"])
        if k == "aggr":
            ak = self.j["ak"]
            if ak == "adt":
                return "%s::%s{%s}" % (short(self.j["adt"]), self.j["variant"], ", ".join(map(repr, self.ops)))
            if ak == "closure":
                return "closure %s [%s]" % (self.j["closure"], ", ".join(map(repr, self.ops)))
            return "%s(%s)" % (ak, ", ".join(map(repr, self.ops)))
        if k == "copyderef":
            return "deref_copy %r" % self.place
        return "%s %s" % (k, self.j.get("s", ""))


class Stmt:
    __slots__ = ("k", "lhs", "rv", "span", "bb", "idx", "j")

    def __init__(self, j, bb, idx):
        self.k = j["k"]
        self.j = j
        self.bb = bb
        self.idx = idx
        self.lhs = Place(j["lhs"]) if "lhs" in j else None
        self.rv = Rvalue(j["rv"]) if "rv" in j else None
        self.span = j.get("span")

    def __repr__(self):
        if self.k == "assign":
            return "%r = %r" % (self.lhs, self.rv)
        return "%s %r" % (self.k, self.lhs)


class Callee:
    """the resolved callee of a Call terminator"""

    __slots__ = ("fn", "full", "args", "krate", "local", "trait", "resolved", "resolved_full", "short", "rshort", "ty")

    def __init__(self, c):
        self.fn = c.get("fn")
        self.full = c.get("fn_full")
        self.args = c.get("args", [])
        self.krate = c.get("krate")
        self.local = c.get("local", False)
        self.trait = c.get("trait")
        self.resolved = c.get("resolved")
        self.resolved_full = c.get("resolved_full")
        self.ty = c.get("ty")
        self.short = short(self.fn) if self.fn else None
        self.rshort = short(self.resolved) if self.resolved else None

    def target_path(self, prog):
        """def-path of the crate-local body this call executes, if any"""
        if self.resolved and self.resolved in prog.items:
            return self.resolved
        if self.fn in prog.items:
            return self.fn
        return None


class Term:
    __slots__ = ("k", "j", "bb", "span", "at", "func", "args", "dest", "target", "unwind", "callee", "discr", "targets", "otherwise", "place", "cond")

    def __init__(self, j, bb):
        self.k = j["k"]
        self.j = j
        self.bb = bb
        self.span = j.get("span")
        # position at which the terminator takes effect in the (outermost) host function: the call site
        # when the block was spliced in by sa/inline.py, else its own span
        self.at = j.get("inlined_at") or self.span
        self.func = self.callee = self.dest = self.discr = self.place = self.cond = None
        self.args = []
        self.targets = []
        self.otherwise = None
        self.target = j.get("target")
        self.unwind = j.get("unwind")
        if self.k == "call":
            self.func = Operand(j["func"])
            self.args = [Operand(a) for a in j["args"]]
            self.dest = Place(j["dest"])
            if self.func.is_const() and "fn" in self.func.c:
                self.callee = Callee(self.func.c)
        elif self.k == "switch":
            self.discr = Operand(j["discr"])
            self.targets = [(int(v), b) for v, b in j["targets"]]
            self.otherwise = j["otherwise"]
        elif self.k == "drop":
            self.place = Place(j["place"])
        elif self.k == "assert":
            self.cond = Operand(j["cond"])

    def succs(self, unwind=False):
        k = self.k
        s = []
        if k == "goto":
            s = [self.target]
        elif k == "switch":
            s = [b for _, b in self.targets] + [self.otherwise]
        elif k in ("call", "drop", "assert"):
            if self.target is not None:
                s = [self.target]
            if unwind and self.unwind is not None:
                s = s + [self.unwind]
        elif k == "other":
            s = list(self.j.get("succ", []))
        out = []
        for b in s:
            if b not in out:
                out.append(b)
        return out

    def name(self):
        return self.callee.short if self.callee else None

    def __repr__(self):
        k = self.k
        if k == "call":
            f = self.callee.short if self.callee else repr(self.func)
            return "%r = %s(%s) -> bb%s" % (self.dest, f, ", ".join(map(repr, self.args)), self.target)
        if k == "switch":
            return "switch(%r) [%s, otherwise: bb%d]" % (
                self.discr,
                ", ".join("%d: bb%d" % (v, b) for v, b in self.targets),
                self.otherwise,
            )
        if k == "goto":
            return "goto bb%d" % self.target
        if k == "drop":
            return "drop(%r) -> bb%s" % (self.place, self.target)
        if k == "assert":
            return "assert(%r == %s, %s) -> bb%s" % (self.cond, self.j["expected"], self.j["msg_kind"], self.target)
        return k


class Block:
    __slots__ = ("i", "cleanup", "stmts", "term")

    def __init__(self, j):
        self.i = j["i"]
        self.cleanup = j["cleanup"]
        self.stmts = [Stmt(s, self.i, n) for n, s in enumerate(j["stmts"])]
        self.term = Term(j["term"], self.i)


def loc_str(span):
    if not span:
        return "?"
    return "%s:%d" % (span["file"], span["line"])


def is_macro_expansion(span, names=None):
    """True if the span comes from a macro (not a desugaring); optionally a named macro"""
    for e in (span or {}).get("exp", []):
        if e.startswith("macro:"):
            if names is None or e[6:] in names:
                return True
    return False


def desugaring(span):
    for e in (span or {}).get("exp", []):
        if e.startswith("desugar:"):
            return e[8:]
    return None


class Body:
    def __init__(self, item, prog):
        self.item = item
        self.prog = prog
        self.path = item["path"]
        self.short = short(self.path)
        m = item["mir"]
        self.arg_count = m["arg_count"]
        self.locals = m["locals"]
        self.debug = m["debug"]
        self.blocks = [Block(b) for b in m["blocks"]]
        self.kind = item["kind"]
        self.span = item["span"]
        self._succ = None
        self._pred = None
        self._dom = None
        self._pdom = None
        self._cd = None
        self._pts = None
        self._reach = {}

    # ---- naming
    def local_name(self, i):
        n = self.locals[i]["name"]
        return n

    def local_ty(self, i):
        return self.locals[i]["ty"]

    def param_names(self):
        return self.item.get("param_names", [])

    def param_local(self, name):
        """MIR local of a named parameter (1-based arg locals)"""
        for idx, n in enumerate(self.param_names()):
            if n == name:
                return idx + 1
        for d in self.debug:
            if d["name"] == name and d.get("arg") is not None and not d["place"]["p"]:
                return d["place"]["l"]
        return None

    def locals_named(self, name):
        # locals of the function itself come first; locals that arrived with a spliced helper / closure body
        # (sa/inline.py, sa/lower.py) only count when the function has none of that name
        own = [l["i"] for l in self.locals if l["name"] == name and not l.get("inlined")]
        if own:
            return own
        return [l["i"] for l in self.locals if l["name"] == name]

    def upvar_names(self):
        return [d["name"] for d in self.debug if d["place"]["p"]]

    # ---- CFG (normal edges only; cleanup blocks excluded)
    def succ(self, b):
        if self._succ is None:
            # edges into `unreachable` blocks (exhaustive-match fallthroughs) are never taken
            dead = {blk.i for blk in self.blocks if blk.term.k == "unreachable" and not blk.stmts}
            self._succ = {blk.i: [s for s in blk.term.succs() if not self.blocks[s].cleanup and s not in dead] for blk in self.blocks if not blk.cleanup}
        return self._succ.get(b, [])

    def pred(self, b):
        if self._pred is None:
            p = defaultdict(list)
            for blk in self.blocks:
                if blk.cleanup:
                    continue
                for s in self.succ(blk.i):
                    p[s].append(blk.i)
            self._pred = p
        return self._pred.get(b, [])

    def normal_blocks(self):
        return [b for b in self.blocks if not b.cleanup]

    def reachable_from(self, b, avoid=()):
        key = (b, tuple(sorted(avoid)))
        if key in self._reach:
            return self._reach[key]
        seen = set()
        st = [b]
        while st:
            x = st.pop()
            if x in seen or x in avoid:
                continue
            seen.add(x)
            st.extend(self.succ(x))
        self._reach[key] = seen
        return seen

    def return_blocks(self):
        return [b.i for b in self.normal_blocks() if b.term.k == "return"]

    def exit_blocks(self):
        """blocks without normal successors (return, unreachable, diverging call)"""
        return [b.i for b in self.normal_blocks() if not self.succ(b.i)]

    # ---- dominators (iterative, on reachable normal blocks)
    def _compute_dom(self, entry_list, succ, pred, nodes):
        dom = {n: None for n in nodes}
        allset = set(nodes)
        for n in nodes:
            dom[n] = set(allset)
        for e in entry_list:
            dom[e] = {e}
        changed = True
        order = list(nodes)
        while changed:
            changed = False
            for n in order:
                if n in entry_list:
                    continue
                ps = [dom[p] for p in pred(n) if p in dom]
                new = set.intersection(*ps) if ps else set()
                new = new | {n}
                if new != dom[n]:
                    dom[n] = new
                    changed = True
        return dom

    def dominators(self):
        if self._dom is None:
            nodes = sorted(self.reachable_from(0))
            self._dom = self._compute_dom([0], self.succ, self.pred, nodes)
        return self._dom

    def dominates(self, a, b):
        d = self.dominators()
        return b in d and a in d[b]

    def postdominators(self):
        """post-dominators w.r.t. a virtual exit joined to all exit blocks"""
        if self._pdom is None:
            nodes = sorted(self.reachable_from(0))
            EXIT = -1
            exits = [b for b in nodes if not self.succ(b)]
            # nodes that cannot reach an exit (infinite loops) are linked to EXIT too
            def rsucc(n):
                if n == EXIT:
                    return exits
                return [p for p in self.pred(n) if p in nodeset]

            def rpred(n):
                if n == EXIT:
                    return []
                s = [x for x in self.succ(n)]
                if not s:
                    return [EXIT]
                return s

            nodeset = set(nodes)
            allnodes = [EXIT] + nodes
            self._pdom = self._compute_dom([EXIT], rsucc, rpred, allnodes)
        return self._pdom

    def postdominates(self, a, b):
        pd = self.postdominators()
        return b in pd and a in pd[b]

    def control_deps(self):
        """cd[b] = set of (switch_block, successor_taken) on which b is control dependent"""
        if self._cd is None:
            pd = self.postdominators()
            cd = defaultdict(set)
            for blk in self.normal_blocks():
                a = blk.i
                if a not in pd:
                    continue
                ss = self.succ(a)
                if len(ss) < 2:
                    continue
                for s in ss:
                    # all nodes on the post-dominator tree path from s up to (not incl.) ipdom(a)
                    # == nodes that post-dominate s but do not strictly post-dominate a
                    for n in pd.get(s, ()):
                        if n == -1:
                            continue
                        if n == a or n not in pd[a]:
                            cd[n].add((a, s))
                        elif n in pd[a] and n != a:
                            pass
            self._cd = cd
        return self._cd

    def transitive_control_deps(self, b, _stack=()):
        """all (switch_block, succ) pairs b transitively depends on; a switch on a named boolean
        contributes what its value implies (see implied_edges), including synthetic atoms
        (("def", bb, idx), "T"|"F") that Flow.atom() knows how to describe"""
        cd = self.control_deps()
        out = set()
        work = [b]
        seen = set()
        while work:
            x = work.pop()
            if x in seen:
                continue
            seen.add(x)
            for (a, s) in cd.get(x, ()):
                if (a, s) not in out:
                    out.add((a, s))
                    work.append(a)
        # loop-carried artefacts: an edge (a -> s) controls b only if b can be reached from s
        # without going through a again (otherwise it is the *other* outcome of an earlier iteration)
        out = {(a, s) for (a, s) in out if s == b or b in self.reachable_from(s, avoid=(a,))}
        extra = set()
        for (a, s) in out:
            extra |= self.implied_edges(a, s, _stack)
        return out | extra

    # ---- named booleans: `let c = a && b; ... if c {..}` keeps the tests of a and b away from the
    # branch they decide.  Two helpers make the analyses see through that:
    #  * reach_avoiding_edges: reachability that tracks the constant value of bool locals along a path
    #    (so deleting the edge `a is true` really cuts off the `c is true` branch);
    #  * implied_edges: the (switch, successor) pairs that must have been taken when a bool local has
    #    a given value at a switch, plus a synthetic atom for the definition that is not a constant.
    def _bool_locals(self):
        if getattr(self, "_bl", None) is None:
            self._bl = {l["i"] for l in self.locals if l["ty"] == "bool"}
        return self._bl

    def reach_avoiding_edges(self, edges, start=0, conds=()):
        """blocks reachable from `start` on paths that use none of `edges`; constants, enum variants and -- for
        `conds` = {(call block, truth)} -- booleans computed from the result of those calls are tracked along the
        path, so that `let missing = !has(x); if missing { return }` avoids the path on which has(x) is true"""
        edges = set(edges)
        conds = set(conds)
        cond_calls = {c[0] for c in conds}
        bl = self._bool_locals()
        seen_states = set()
        seen = set()
        st = [(start, frozenset())]
        n = 0
        while st:
            x, env = st.pop()
            if (x, env) in seen_states:
                continue
            n += 1
            if n > 200000:
                # give up on precision: plain reachability
                return self._plain_reach_avoiding(edges, start)
            seen_states.add((x, env))
            seen.add(x)
            e = dict(env)
            blk = self.blocks[x]
            for s_ in blk.stmts:
                if s_.k != "assign" or s_.lhs.proj:
                    if s_.k == "assign" and s_.lhs.local in e and not s_.lhs.has_deref():
                        e.pop(s_.lhs.local, None)
                    continue
                l = s_.lhs.local
                rv = s_.rv
                # enum variants: `x = Enum::V(..)`, copies / moves of x, `d = discriminant(x)`
                if rv.k == "aggr" and rv.j.get("ak") == "adt" and rv.j.get("is_enum"):
                    vi = self._variant_index(rv.j.get("adt"), rv.j.get("variant"))
                    if vi is None:
                        e.pop(l, None)
                    else:
                        e[l] = ("V", vi)
                    continue
                if rv.k == "discr":
                    pl = rv.place
                    if not pl.proj and isinstance(e.get(pl.local), tuple):
                        e[l] = ("I", e[pl.local][1])
                    else:
                        e.pop(l, None)
                    continue
                if rv.k == "use" and rv.ops[0].place is not None and not rv.ops[0].place.proj and isinstance(e.get(rv.ops[0].place.local), tuple):
                    e[l] = e[rv.ops[0].place.local]
                    continue
                if l not in bl:
                    e.pop(l, None)
                    continue
                v = None
                if rv.k == "use":
                    o = rv.ops[0]
                    if o.is_const():
                        ci = o.const_int()
                        if ci in (0, 1):
                            v = bool(ci)
                    elif o.place is not None and not o.place.proj and o.place.local in e:
                        v = e[o.place.local]
                elif rv.k == "unop" and rv.j["op"] == "Not":
                    o = rv.ops[0]
                    if o.place is not None and not o.place.proj and o.place.local in e:
                        pv = e[o.place.local]
                        if isinstance(pv, tuple):
                            v = ("C", pv[1], not pv[2]) if pv[0] == "C" else None
                        else:
                            v = not pv
                if v is None:
                    e.pop(l, None)
                else:
                    e[l] = v
            t = blk.term
            if t.k == "call" and not t.dest.proj:
                e.pop(t.dest.local, None)
                if x in cond_calls:
                    e[t.dest.local] = ("C", x, False)
            succs = self.succ(x)
            if t.k == "switch" and t.discr.place is not None and not t.discr.place.proj and t.discr.place.local in e:
                ev = e[t.discr.place.local]
                val = None
                if isinstance(ev, tuple):
                    if ev[0] == "I":
                        val = ev[1]
                    elif ev[0] == "C":
                        # the switch tests (the negation of) a tracked call result: drop the edges on which that
                        # result has an avoided truth value
                        zero = dict(t.targets).get(0)
                        keep = []
                        for y in succs:
                            if y == zero and y != t.otherwise:
                                truth = False
                            elif y != zero:
                                truth = True
                            else:
                                keep.append(y)
                                continue
                            if ev[2]:
                                truth = not truth
                            if (ev[1], truth) not in conds:
                                keep.append(y)
                        succs = keep
                else:
                    val = 1 if ev else 0
                if val is not None:
                    tgt = dict(t.targets).get(val, t.otherwise)
                    succs = [y for y in succs if y == tgt]
            env2 = frozenset(e.items())
            for y in succs:
                if (x, y) in edges:
                    continue
                st.append((y, env2))
        return seen

    def _variant_index(self, adt, name):
        known = {("std::option::Option", "None"): 0, ("std::option::Option", "Some"): 1, ("std::result::Result", "Ok"): 0, ("std::result::Result", "Err"): 1, ("std::ops::ControlFlow", "Continue"): 0, ("std::ops::ControlFlow", "Break"): 1}
        if (adt, name) in known:
            return known[(adt, name)]
        a = self.prog.adts.get(adt)
        if a and a.get("kind") == "Enum":
            vs = [v["name"] for v in a["variants"]]
            if name in vs:
                return vs.index(name)
        return None

    def _plain_reach_avoiding(self, edges, start=0):
        seen = set()
        st = [start]
        while st:
            x = st.pop()
            if x in seen:
                continue
            seen.add(x)
            for y in self.succ(x):
                if (x, y) not in edges:
                    st.append(y)
        return seen

    def implied_edges(self, a, s, _stack=()):
        """(switch, succ) pairs and synthetic (("def", bb, idx), "T"|"F") atoms that must hold when the
        switch at block `a` on a bool LOCAL with several definitions goes to `s`"""
        t = self.blocks[a].term
        if t.k != "switch" or t.discr.place is None or t.discr.place.proj:
            return set()
        x = t.discr.place.local
        if x not in self._bool_locals() or 1 <= x <= self.arg_count:
            return set()
        return self._implied_local(x, a, s, _stack)

    def _implied_local(self, x, a, s, _stack):
        t = self.blocks[a].term
        vals = {v for v in (0, 1) if dict(t.targets).get(v, t.otherwise) == s}
        if len(vals) != 1:
            return set()
        return self._implied_value(x, bool(vals.pop()), _stack)

    def _implied_value(self, x, v, _stack=()):
        if x in _stack or len(_stack) > 6:
            return set()
        defs = self.assigns_to(x)
        if not defs:
            return set()
        consts = 0
        cands = []
        for (bb, d) in defs:
            rv = getattr(d, "rv", None)
            if rv is not None and rv.k == "use" and rv.ops[0].is_const() and rv.ops[0].const_int() in (0, 1):
                consts += 1
                if bool(rv.ops[0].const_int()) == v:
                    cands.append((bb, d, True))
            else:
                cands.append((bb, d, False))
        if len(defs) == 1 and not consts:
            # a plain copy of another bool local / a negation: follow it
            (bb, d) = defs[0]
            rv = getattr(d, "rv", None)
            if rv is not None and rv.k == "use" and rv.ops[0].place is not None and not rv.ops[0].place.proj and rv.ops[0].place.local in self._bool_locals():
                return self._implied_value(rv.ops[0].place.local, v, _stack + (x,))
            if rv is not None and rv.k == "unop" and rv.j["op"] == "Not" and rv.ops[0].place is not None and not rv.ops[0].place.proj:
                return self._implied_value(rv.ops[0].place.local, not v, _stack + (x,))
            return set()
        if not consts or not cands:
            return set()
        result = None
        for (bb, d, is_const) in cands:
            c = set(self.transitive_control_deps(bb, _stack=_stack + (x,)))
            if not is_const:
                rv = getattr(d, "rv", None)
                idx = d.idx if rv is not None else "term"
                c.add((("def", bb, idx), "T" if v else "F"))
                # the non-constant definition may itself be a copy of another such local
                if rv is not None and rv.k == "use" and rv.ops[0].place is not None and not rv.ops[0].place.proj and rv.ops[0].place.local in self._bool_locals():
                    c |= self._implied_value(rv.ops[0].place.local, v, _stack + (x,))
            result = c if result is None else (result & c)
        return result or set()

    def fn_values(self):
        """function items used as values in this body (reified fn pointers, fn items passed as arguments)"""
        out = []
        for blk in self.normal_blocks():
            ops = []
            for s in blk.stmts:
                if s.rv is not None:
                    ops.extend(s.rv.ops)
            if blk.term.k == "call":
                ops.extend(blk.term.args)
            for o in ops:
                if o.is_const() and o.c and "fn" in o.c:
                    out.append(Callee(o.c))
        return out

    # ---- iteration helpers
    def calls(self):
        for blk in self.normal_blocks():
            if blk.term.k == "call":
                yield blk.term

    def stmts(self):
        for blk in self.normal_blocks():
            for s in blk.stmts:
                yield s

    def assigns_to(self, local):
        """definitions whose lhs base is `local`: list of (bb, stmt|term)"""
        out = []
        for blk in self.normal_blocks():
            for s in blk.stmts:
                if s.k == "assign" and s.lhs.local == local and not s.lhs.has_deref():
                    out.append((blk.i, s))
            if blk.term.k == "call" and blk.term.dest.local == local:
                out.append((blk.i, blk.term))
        return out

    # ---- pretty printer
    def pretty(self):
        lines = ["fn %s  (%s)" % (self.path, loc_str(self.span))]
        for l in self.locals:
            nm = (" // " + l["name"]) if l["name"] else ""
            lines.append("  let _%d: %s;%s" % (l["i"], l["ty"], nm))
        for d in self.debug:
            if d["place"]["p"]:
                lines.append("  debug %s => %r" % (d["name"], Place(d["place"])))
        for blk in self.blocks:
            lines.append("  bb%d%s:" % (blk.i, " (cleanup)" if blk.cleanup else ""))
            for s in blk.stmts:
                lines.append("    %r;   // %s" % (s, loc_str(s.span)))
            lines.append("    %r;   // %s" % (blk.term, loc_str(blk.term.span)))
        return "\n".join(lines)


class Program:
    def __init__(self, facts):
        self.facts = facts
        self.config = facts.get("config")
        self.items = {}
        self.bodies = {}
        for it in facts["items"]:
            self.items[it["path"]] = it
            if "mir" in it:
                self.bodies[it["path"]] = Body(it, self)
        self.adts = {a["path"]: a for a in facts["adts"]}
        self.statics = facts["statics"]
        self._by_short = defaultdict(list)
        for p, b in self.bodies.items():
            self._by_short[b.short].append(b)
        self._cg = None
        self._closure_children = defaultdict(list)
        for p, it in self.items.items():
            if it["kind"] == "closure":
                self._closure_children[it["parent"]].append(p)

    def body(self, path):
        return self.bodies.get(path)

    def find(self, suffix, kinds=("fn", "assoc_fn")):
        """bodies whose short path ends with `suffix` (segment-aligned)"""
        out = []
        for p, b in self.bodies.items():
            if b.kind not in kinds:
                continue
            s = b.short
            if s == suffix or s.endswith("::" + suffix):
                out.append(b)
        return out

    def one(self, suffix):
        r = self.find(suffix)
        if len(r) != 1:
            raise AnchorError("anchor `%s` resolves to %d bodies" % (suffix, len(r)))
        return r[0]

    def closures_of(self, path):
        """closure bodies lexically nested (transitively) in `path`"""
        out = []
        work = [path]
        while work:
            p = work.pop()
            for c in self._closure_children.get(p, []):
                out.append(self.bodies[c])
                work.append(c)
        return out

    def public_fns(self):
        return [
            b
            for b in self.bodies.values()
            if b.kind in ("fn", "assoc_fn") and b.item.get("reachable") and not b.item.get("derived")
        ]

    # ---- call graph: edges to local bodies; closures created in a body are edges too
    def call_graph(self):
        if self._cg is None:
            cg = defaultdict(set)
            for p, b in self.bodies.items():
                for t in b.calls():
                    if t.callee:
                        tp = t.callee.target_path(self)
                        if tp:
                            cg[p].add(tp)
                for s in b.stmts():
                    if s.k == "assign" and s.rv.k == "aggr" and s.rv.j["ak"] == "closure":
                        c = s.rv.j["closure"]
                        if c in self.bodies:
                            cg[p].add(c)
                # closures may also appear as constants (non-capturing closures are ZST consts)
                for blk in b.normal_blocks():
                    ops = []
                    for s in blk.stmts:
                        if s.rv:
                            ops.extend(s.rv.ops)
                    if blk.term.k == "call":
                        ops.extend(blk.term.args)
                    for o in ops:
                        if o.is_const() and o.c and "closure" in o.c and o.c["closure"] in self.bodies:
                            cg[p].add(o.c["closure"])
                        # a function item used as a value (fn pointer / passed to an adaptor) may be called
                        if o.is_const() and o.c and "fn" in o.c:
                            tp = Callee(o.c).target_path(self)
                            if tp:
                                cg[p].add(tp)
            self._cg = cg
        return self._cg

    def reachable_bodies(self, roots):
        cg = self.call_graph()
        seen = set()
        work = list(roots)
        while work:
            p = work.pop()
            if p in seen:
                continue
            seen.add(p)
            work.extend(cg.get(p, ()))
        return seen

    def sccs(self, nodes):
        """Tarjan SCCs of the call graph restricted to `nodes`"""
        cg = self.call_graph()
        index = {}
        low = {}
        onst = set()
        st = []
        out = []
        counter = [0]

        def strong(v):
            # iterative Tarjan
            work = [(v, iter(sorted(x for x in cg.get(v, ()) if x in nodes)))]
            index[v] = low[v] = counter[0]
            counter[0] += 1
            st.append(v)
            onst.add(v)
            while work:
                node, it = work[-1]
                adv = False
                for w in it:
                    if w not in index:
                        index[w] = low[w] = counter[0]
                        counter[0] += 1
                        st.append(w)
                        onst.add(w)
                        work.append((w, iter(sorted(x for x in cg.get(w, ()) if x in nodes))))
                        adv = True
                        break
                    elif w in onst:
                        low[node] = min(low[node], index[w])
                if adv:
                    continue
                work.pop()
                if work:
                    low[work[-1][0]] = min(low[work[-1][0]], low[node])
                if low[node] == index[node]:
                    comp = []
                    while True:
                        w = st.pop()
                        onst.discard(w)
                        comp.append(w)
                        if w == node:
                            break
                    out.append(comp)

        for v in sorted(nodes):
            if v not in index:
                strong(v)
        return out


class AnchorError(Exception):
    pass
