"""Thorough-tier extras shared by all properties: the mutant fixtures of the property are applied to
scratch copies of /repo (outside /repo and /verif) and the quick rules must fire on each and name the
instance; type-level witnesses; lint cross-references."""
import json
import os
import shutil
import subprocess
import sys
import tempfile

from facts import VERIF, REPO

FIXDIR = os.path.join(VERIF, "fixtures", "mutants")


def expectations():
    p = os.path.join(FIXDIR, "EXPECT.json")
    with open(p) as f:
        return json.load(f)


def run_fixtures(ctx, prop):
    """apply every fixture registered for `prop` to a scratch copy and require the quick check to fire"""
    if os.environ.get("VERIF_IN_FIXTURE"):
        return
    exp = expectations()
    mine = sorted(k for k, v in exp.items() if prop in v.get("fires", []))
    ctx.rule("SELFTEST", "each mutant fixture of this property (a still-compiling edit that breaks it) makes the quick check fire")
    fired = skipped = 0
    failed = []
    for name in mine:
        patch = os.path.join(FIXDIR, name)
        if not os.path.exists(patch):
            continue
        scratch = tempfile.mkdtemp(prefix="verif-fix-", dir="/var/tmp")
        try:
            for item in ("src", "Cargo.toml", "Cargo.lock", "README.md"):
                s = os.path.join(REPO, item)
                d = os.path.join(scratch, item)
                if os.path.isdir(s):
                    shutil.copytree(s, d)
                else:
                    shutil.copyfile(s, d)
            r = subprocess.run(["git", "apply", "--unsafe-paths", "--directory=" + scratch, patch], cwd="/", capture_output=True, text=True)
            if r.returncode != 0:
                r = subprocess.run(["patch", "-p1", "-s", "-i", patch], cwd=scratch, capture_output=True, text=True)
            if r.returncode != 0:
                skipped += 1
                ctx.info("SELFTEST", "skipped|" + name, "fixture no longer applies to the current tree (skipped)")
                continue
            env = dict(os.environ)
            env.update({"VERIF_REPO": scratch, "VERIF_OUT": os.path.join(scratch, "out"), "VERIF_IN_FIXTURE": "1", "VERIF_TIER": "quick"})
            r = subprocess.run([sys.executable, os.path.join(VERIF, "sa", "check.py"), prop, "--tier", "quick"], cwd=VERIF, env=env, capture_output=True, text=True)
            if r.returncode == 1 and "VIOLATION property=%s" % prop in r.stdout:
                fired += 1
                first = [l for l in r.stdout.splitlines() if l.strip().startswith("rule ")]
                ctx.ok("SELFTEST", "fires|" + name, "fixture %s: check fires -- %s" % (name, (first[0].strip()[:160] if first else "")))
            elif r.returncode == 2:
                skipped += 1
                ctx.info("SELFTEST", "nocompile|" + name, "fixture does not compile on the current tree (skipped): %s" % r.stdout[-200:])
            else:
                failed.append(name)
                ctx.violation("SELFTEST", "silent|" + name, "the quick check of %s does NOT fire on fixture %s (the checker has regressed)" % (prop, name))
        finally:
            shutil.rmtree(scratch, ignore_errors=True)
    ctx.counters["fixtures_fired"] = fired
    ctx.counters["fixtures_skipped"] = skipped
    ctx.counters["fixtures_total"] = len(mine)
