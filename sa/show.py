"""debug helper: python3 sa/show.py <suffix> [config]  -- pretty-print a body's MIR"""
import sys, os
sys.path.insert(0, os.path.dirname(__file__))
import facts, mir
cfg = sys.argv[2] if len(sys.argv) > 2 else "default"
import inline
prog = mir.Program(inline.normalise(facts.load(configs=(cfg,), verbose=False)[cfg]))
for b in prog.find(sys.argv[1], kinds=("fn", "assoc_fn", "closure")) or [x for p, x in prog.bodies.items() if sys.argv[1] in p]:
    print(b.pretty())
    print()
