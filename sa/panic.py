"""PANIC + TAINT: inventory of panic-capable sites, automatic discharge by the repository's
guard idioms, taint from caller-supplied names / the input document, reviewed table for the rest.

A site is one of
  unwrap   call to Option/Result::{unwrap, expect, unwrap_err, expect_err}
  explicit call into core::panicking / std::rt::begin_panic (panic!, assert!, unreachable!, ...)
  index    call to Index/IndexMut::{index,index_mut}, slice range indexing, Vec::remove/swap_remove/..
  arith    MIR Assert terminator (overflow, division/remainder by zero, bounds check)
"""
import json
import os
import re

from flow import L, fmt_desc, desc_mentions
from mir import loc_str, short, is_macro_expansion

VERIF = os.path.dirname(os.path.dirname(os.path.abspath(__file__)))

UNWRAPS = {
    "std::option::Option::unwrap",
    "std::option::Option::expect",
    "std::result::Result::unwrap",
    "std::result::Result::expect",
    "std::result::Result::unwrap_err",
    "std::result::Result::expect_err",
}
INDEXERS = {"std::ops::Index::index", "std::ops::IndexMut::index_mut"}
PANICKY_STD = {
    "std::vec::Vec::remove",
    "std::vec::Vec::swap_remove",
    "std::vec::Vec::insert",
    "std::vec::Vec::split_off",
    "std::vec::Vec::drain",
    "core::slice::split_at",
    "core::slice::split_at_mut",
    "core::slice::copy_from_slice",
    "core::slice::chunks",
    "core::slice::windows",
    "std::iter::Iterator::step_by",
    "std::collections::VecDeque::remove",
    "core::slice::swap",
}
# wrappers that do not change which value we are talking about
TRANSPARENT = ("clone", "as_ref", "as_mut", "borrow", "borrow_mut", "deref", "deref_mut", "to_owned", "to_string", "into", "as_str", "as_slice", "cloned", "copied", "as_deref", "to_vec", "iter", "iter_mut", "into_iter", "by_ref")


LEGACY_KEYS = bool(os.environ.get("VERIF_LEGACY_KEYS"))


def root_fn_short(body):
    """short path of the function a body belongs to: closures are followed to their (possibly new, after a helper
    was spliced into its caller) enclosing function"""
    b = body
    n = 0
    while b.kind == "closure" and n < 10:
        n += 1
        pb = b.prog.bodies.get(b.item.get("parent"))
        if pb is None:
            break
        b = pb
    return b.short.split("::{closure")[0]


class Site:
    def __init__(self, body, kind, node, what, operand=None):
        self.body = body
        self.kind = kind
        self.node = node  # Term
        self.what = what
        self.operand = operand
        self.origin = None  # description tuple of the unwrapped value's producer
        self.status = None  # discharged:<idiom> | reviewed | tainted | kind | arith | unreviewed
        self.why = ""
        self.tainted_by = None

    def site(self):
        return loc_str(self.node.span)

    def key(self):
        """stable review key: function, operation and the *shape* of the operand's producer --
        callee names, struct field names and literals are kept, local variable names are not
        (renaming a variable must not invalidate a review)"""
        xo = getattr(self, "xorigin", None)
        if LEGACY_KEYS or xo is None:
            o = shape_str(self.origin) if self.origin is not None else ""
            return "%s|%s|%s|%s" % (self.kind, self.body.short, self.what, o)
        # named single-definition locals are expanded (hoisting an expression into a variable, or
        # inlining one, keeps the key) and closures are keyed by their enclosing function (closure
        # numbers shift when another closure is added)
        fn = root_fn_short(self.body)
        return "%s|%s|%s|%s" % (self.kind, fn, self.what, shape_str(xo))


def is_panic_call(nm):
    return nm.startswith("core::panicking::") or nm.startswith("std::rt::begin_panic") or nm.startswith("std::rt::panic") or nm in ("core::panicking::panic", "core::panicking::panic_fmt", "std::process::abort", "core::option::unwrap_failed", "core::result::unwrap_failed", "core::option::expect_failed")


def enumerate_sites(body):
    out = []
    for blk in body.normal_blocks():
        t = blk.term
        if t.k == "call" and t.callee:
            nm = t.callee.short
            if nm in UNWRAPS:
                out.append(Site(body, "unwrap", t, nm.split("::")[-1], t.args[0] if t.args else None))
            elif is_panic_call(nm):
                macro = None
                for e in (t.span or {}).get("exp", []):
                    if e.startswith("macro:"):
                        macro = e[6:]
                        break
                out.append(Site(body, "explicit", t, macro or nm.split("::")[-1]))
            elif nm in INDEXERS:
                recv_ty = t.callee.args[0] if t.callee.args else "?"
                out.append(Site(body, "index", t, "index:" + container_kind(recv_ty), t.args[0] if t.args else None))
            elif nm in PANICKY_STD:
                out.append(Site(body, "index", t, nm.split("::")[-1], t.args[0] if t.args else None))
        elif t.k == "assert":
            if str(t.j.get("msg_kind", "")).startswith("BoundsCheck"):
                # `s[i]` on a slice / array is a built-in place projection with a BoundsCheck assert in front of it --
                # the same bounds check as Index::index on a Vec, and reviewed under the same key
                bc = _bounds_check_site(body, t)
                if bc is not None:
                    out.append(bc)
                    continue
            out.append(Site(body, "arith", t, t.j["msg_kind"] + ":" + (t.j["msg"].split("(")[1].split(",")[0] if "(" in t.j["msg"] else "")))
    return out


class _PlaceOperand:
    def __init__(self, local, proj, ty):
        from mir import Place

        self.place = Place({"l": local, "p": proj, "ty": ty})
        self.c = None
        self.k = "copy"

    def is_const(self):
        return False


def _bounds_check_site(body, t):
    m = re.search(r"index: (?:copy|move) _(\d+)", t.j.get("msg", ""))
    if not m:
        return None
    il = int(m.group(1))
    # the indexed place: `base[_il]` in the block the assert continues to (or anywhere in the body)
    cands = [body.blocks[t.target]] if t.target is not None else []
    for blk in cands + [b_ for b_ in body.normal_blocks() if b_ not in cands]:
        places = []
        for st in blk.stmts:
            if st.k != "assign":
                continue
            places.append(st.lhs)
            if st.rv.place is not None:
                places.append(st.rv.place)
            for o in st.rv.ops:
                if o.place is not None:
                    places.append(o.place)
        if blk.term.k == "call":
            for a in blk.term.args:
                if a.place is not None:
                    places.append(a.place)
        for pl in places:
            for k, e in enumerate(pl.proj):
                if isinstance(e, dict) and e.get("idx") == il:
                    base = _PlaceOperand(pl.local, pl.proj[:k], "[_]")
                    site = Site(body, "index", t, "index:Vec", base)
                    site.index_operand = _PlaceOperand(il, [], "usize")
                    return site
    return None


def container_kind(ty):
    for k in ("std::vec::Vec", "std::collections::HashMap", "std::collections::VecDeque", "std::string::String", "str", "["):
        if ty.startswith(k):
            return k.split("::")[-1]
    return ty.split("<")[0].split("::")[-1]


# ------------------------------------------------------------------ value descriptions


def norm(d):
    """strip transparent wrappers (clone/as_ref/deref/&) from a description"""
    if not isinstance(d, tuple):
        return d
    if d[0] == "call":
        nm = d[1].split("::")[-1]
        if nm in TRANSPARENT and d[2]:
            return norm(d[2][0])
        return ("call", d[1], tuple(norm(x) for x in d[2]))
    if d[0] == "unop":
        return ("unop", d[1], norm(d[2]))
    if d[0] == "binop":
        return ("binop", d[1], norm(d[2]), norm(d[3]))
    if d[0] == "place":
        # `x.0` of a tuple temp etc. stay as they are
        return d
    return d


def norm_str(d):
    """stable printable form: unresolved temporaries print as `_` (MIR local numbers are not stable)"""
    if d is None:
        return ""
    return re.sub(r"\b_\d+\b", "_", fmt_desc(norm(d)))


def shape(d):
    if not isinstance(d, tuple):
        return d
    k = d[0]
    if k == "place":
        parts = d[1].split(".")
        # the payload of a matched Option / Result (`(x as Some).0`, the binding of `if let Some(e) = x` or of a
        # lowered `x.map(|e| ..)`) is the same "some value" as a closure parameter or a pattern variable
        rest, skip = [], False
        for q in parts[1:]:
            if q.startswith("as ") and q[3:] in ("Some", "Ok", "Err", "Continue", "Break"):
                skip = True
                continue
            if skip and q.isdigit():
                skip = False
                continue
            skip = False
            rest.append(q)
        return ("place", ".".join(["_"] + rest))
    if k == "tmp":
        return ("place", "_")
    if k == "call":
        nm = d[1]
        if nm.endswith("IndexMut::index_mut"):
            # `v[i]` borrowed mutably or not is the same bounds check
            nm = nm[: -len("IndexMut::index_mut")] + "Index::index"
        elif nm.endswith("Iterator::find"):
            # `.find(p).unwrap()` and `.position(p).unwrap()` panic under the same condition: no element satisfies p
            nm = nm[: -len("find")] + "position"
        return ("call", nm, tuple(shape(x) for x in d[2]))
    if k in ("unop",):
        return (k, d[1], shape(d[2]))
    if k == "binop":
        return (k, d[1], shape(d[2]), shape(d[3]))
    if k == "index":
        return (k, shape(d[1]), shape(d[2]))
    if k == "discr":
        return ("discr", ".".join(["_"] + d[1].split(".")[1:]), "")
    if k == "adt":
        return ("adt", d[1], tuple(shape(x) for x in d[2]))
    if k in ("closure", "tuple", "array"):
        return (k,) + tuple(shape(x) for x in d[1:])
    return d


def shape_str(d):
    if d is None:
        return ""
    return re.sub(r"\b_\d+\b", "_", fmt_desc(shape(norm(d))))


def expand_names(fl, d, depth=5):
    """replace named single-definition locals (and unresolved temporaries) by the description of
    their definition"""
    if not isinstance(d, tuple) or depth <= 0:
        return d
    k = d[0]
    if k in ("place", "tmp"):
        from engines import value_of_named

        v = value_of_named(fl, d[1])
        if v is None and k == "place":
            v = search_loop_value(fl, d[1])
        if v is None:
            return d
        v = norm(v)
        if not isinstance(v, tuple) or v[0] not in ("call", "binop", "unop", "index", "closure"):
            # a pattern binding / re-borrow of a place: still "some variable"
            return d
        return expand_names(fl, v, depth - 1)
    if k == "call":
        return ("call", d[1], tuple(expand_names(fl, x, depth - 1) for x in d[2]))
    if k == "unop":
        return ("unop", d[1], expand_names(fl, d[2], depth - 1))
    if k == "binop":
        return ("binop", d[1], expand_names(fl, d[2], depth - 1), expand_names(fl, d[3], depth - 1))
    if k == "index":
        return ("index", expand_names(fl, d[1], depth - 1), expand_names(fl, d[2], depth - 1))
    return d


def search_loop_value(fl, name):
    """`let mut found = None; for (i, x) in C.iter().enumerate() { if p(x) { found = Some(i); break; } }` is
    `C.iter().position(p)` written as a loop: an Option local whose definitions are one `None` outside and `Some(..)`
    inside a loop over an iterator gets the description of that search, so that unwrapping it is the same panic site
    (same key in the review table) as unwrapping the adaptor's result"""
    b = fl.b
    if "." in name or "[" in name or "*" in name:
        return None
    ls = b.locals_named(name)
    if len(ls) != 1 or not b.local_ty(ls[0]).startswith("std::option::Option<"):
        return None
    nones, somes = [], []
    for (bb, d) in b.assigns_to(ls[0]):
        rv = getattr(d, "rv", None)
        if rv is None or d.lhs.proj:
            return None
        for _ in range(4):
            # `found = move _t` with `_t = Some(i)`
            if rv.k == "use" and rv.ops and rv.ops[0].place is not None and not rv.ops[0].place.proj and b.local_name(rv.ops[0].place.local) is None:
                d2 = fl.single_def(rv.ops[0].place.local)
                if d2 is not None and getattr(d2, "rv", None) is not None:
                    rv = d2.rv
                    continue
            break
        if rv.k == "aggr" and rv.j.get("variant") == "None":
            nones.append(bb)
        elif rv.k == "aggr" and rv.j.get("variant") == "Some":
            somes.append(bb)
        elif rv.k == "use" and rv.ops and rv.ops[0].place is None and "None" in str((rv.ops[0].c or {}).get("s", "")):
            nones.append(bb)
        else:
            return None
    if len(nones) != 1 or not somes:
        return None
    from hashord import natural_loop_blocks

    nexts = [t for t in b.calls() if t.callee and t.callee.short.endswith("Iterator::next")]
    src = None
    from engines import value_of_named

    for bb in somes:
        # the innermost iterator loop whose header dominates the assignment (a `break` block lies outside the natural
        # loop but is still dominated by its header) and does not dominate the `None` initialisation
        best = None
        for t in nexts:
            lb = natural_loop_blocks(b, t.bb)
            if len(lb) > 1 and b.dominates(t.bb, bb) and not b.dominates(t.bb, nones[0]) and (bb in lb or any(p_ in lb for p_ in b.pred(bb)) or any(q_ in lb for p_ in b.pred(bb) for q_ in b.pred(p_))) and (best is None or len(lb) < len(best[1])):
                best = (t, lb)
        if best is None:
            return None
        dsrc = norm(fl.describe(best[0].args[0], depth=10))
        for _ in range(8):
            if isinstance(dsrc, tuple) and dsrc[0] == "call" and dsrc[1].split("::")[-1] in ("enumerate", "into_iter", "iter", "iter_mut", "by_ref") and dsrc[2]:
                dsrc = norm(dsrc[2][0])
            elif isinstance(dsrc, tuple) and dsrc[0] in ("place", "tmp") and value_of_named(fl, dsrc[1]) is not None:
                dsrc = norm(value_of_named(fl, dsrc[1]))
            else:
                break
        if src is not None and src != dsrc:
            return None
        src = dsrc
    return ("call", "core::iter::Iterator::position", (src, ("closure", ("place", "_"))))


def origin_of(fl, site):
    """describe the producer of the value being unwrapped / indexed"""
    if site.operand is None:
        return None
    d = norm(fl.describe(site.operand, depth=12))
    if site.kind == "index" and len(site.node.args) > 1:
        d = ("index", d, norm(fl.describe(site.node.args[1], depth=8)))
    elif site.kind == "index" and getattr(site, "index_operand", None) is not None:
        d = ("index", d, norm(fl.describe(site.index_operand, depth=8)))
    site.xorigin = norm(expand_names(fl, d))
    return d


# ------------------------------------------------------------------ guards


def _reach_without_edge(body, edge):
    return body.reach_avoiding_edges([edge])


def bool_atoms(fl):
    """[(bb, test(normalised, negations removed), true_succ, false_succ)] for boolean switches"""
    out = []
    b = fl.b
    for blk in b.normal_blocks():
        if blk.term.k != "switch":
            continue
        at = fl.atom(blk.i)
        if at["ty"] != "bool":
            continue
        test = at["test"]
        neg = False
        while isinstance(test, tuple) and test[0] == "unop" and test[1] == "Not":
            neg = not neg
            test = test[2]
        f_succ = dict(at["targets"]).get(0)
        t_succ = at["otherwise"]
        if neg:
            f_succ, t_succ = t_succ, f_succ
        out.append((blk.i, norm(test), t_succ, f_succ))
    return out


def implied_tests(fl, bb, succ):
    """[(test description, truth)] that must hold when the switch at `bb` on a NAMED boolean goes to `succ`
    (`let ok = has(a) && has(b); if !ok { return Err }`: on the `ok` edge both has(a) and has(b) are true)"""
    b = fl.b
    out = []
    for (a, s) in b.implied_edges(bb, succ):
        at = fl.atom(a)
        if not at or at["ty"] != "bool":
            continue
        test = at["test"]
        neg = False
        while isinstance(test, tuple) and test[0] == "unop" and test[1] == "Not":
            neg = not neg
            test = test[2]
        truth = (s == at["otherwise"])
        if neg:
            truth = not truth
        out.append((norm(test), truth))
    return out


def discr_atoms(fl):
    """[(bb, tested description, {variant_index: succ}, otherwise)] for enum-discriminant switches"""
    out = []
    b = fl.b
    for blk in b.normal_blocks():
        if blk.term.k != "switch":
            continue
        at = fl.atom(blk.i)
        test = at["test"]
        if isinstance(test, tuple) and test[0] == "discr":
            out.append((blk.i, test, dict(at["targets"]), at["otherwise"]))
    return out


def passes_true_edge(body, guard_bb, true_succ, site_bb):
    """every path from entry to site_bb takes the edge guard_bb -> true_succ"""
    if true_succ is None:
        return False
    return site_bb not in _reach_without_edge(body, (guard_bb, true_succ))


EXISTENCE_TESTS = ("contains_key", "has_node", "contains")


def existence_guard(fl, site, map_desc, key_desc):
    """idiom 1/2: a dominating `contains_key(M, K)` / `has_node(G, K)` with the same map and key"""
    b = fl.b
    ks = fmt_desc(key_desc)
    ms = fmt_desc(map_desc) if map_desc is not None else None
    for (bb, test, t_succ, f_succ) in bool_atoms(fl):
        if not (isinstance(test, tuple) and test[0] == "call"):
            continue
        nm = test[1].split("::")[-1]
        if nm not in EXISTENCE_TESTS or len(test[2]) < 2:
            continue
        gm, gk = fmt_desc(test[2][0]), fmt_desc(test[2][1])
        if gk != ks:
            continue
        if ms is not None and not same_store(gm, ms):
            continue
        if passes_true_edge(b, bb, t_succ, site.node.bb):
            return "dominated by %s(%s, %s) at %s" % (nm, gm, gk, loc_str(b.blocks[bb].term.span))
    return None


def same_store(a, b):
    """two receiver descriptions denote the same name->position store: `self.nodes_map` is what
    `has_node(self, ..)` / `get_node_index(self, ..)` consult"""
    if a == b:
        return True
    def root(x):
        for suf in (".nodes_map", ".nodes_map_rev"):
            if x.endswith(suf):
                return x[: -len(suf)]
        return x
    return root(a) == root(b)


# ------------------------------------------------------------------ reviewed table


def load_review():
    p = os.path.join(VERIF, "rules", "panic_review.json")
    if not os.path.exists(p):
        return {}
    with open(p) as f:
        d = json.load(f)
    return {e["key"]: e for e in d.get("entries", [])}


# ------------------------------------------------------------------ producers


def origin_call(fl, operand, depth=12):
    """the call Term that produced the value in `operand` (through moves, re-borrows and
    transparent wrappers), or None"""
    b = fl.b
    op = operand
    while depth > 0 and op is not None and op.place is not None:
        depth -= 1
        p = op.place
        if b.local_name(p.local) is not None and p.local > b.arg_count and len(b.assigns_to(p.local)) != 1:
            return None
        d = fl.single_def(p.local)
        if d is None:
            return None
        if getattr(d, "k", None) == "call":
            nm = d.callee.short.split("::")[-1] if d.callee else "<indirect>"
            if nm in TRANSPARENT and d.args:
                op = d.args[0]
                continue
            return d
        rv = d.rv
        if rv.k in ("use", "cast") and rv.ops:
            op = rv.ops[0]
            continue
        if rv.k in ("ref", "copyderef"):
            from flow import _LocalOperand

            op = _LocalOperand(rv.place.local, b.local_ty(rv.place.local))
            continue
        return None
    return None


def const_divisor_nonzero(body, assert_term):
    """idiom 5: the Div/Rem guarded by this DivisionByZero/RemainderByZero assert has a non-zero constant divisor"""
    tb = body.blocks[assert_term.target] if assert_term.target is not None else None
    cand = []
    if tb is not None:
        cand.extend(tb.stmts)
    for s in cand:
        if s.k == "assign" and s.rv.k == "binop" and s.rv.j["op"] in ("Div", "Rem"):
            dv = s.rv.ops[1]
            if dv.is_const() and dv.const_int() not in (None, 0):
                return True
            return False
    return False


def assert_operands(body, assert_term):
    """(op, lhs operand, rhs operand) of the checked arithmetic behind an Overflow assert"""
    blk = body.blocks[assert_term.bb]
    for s in reversed(blk.stmts):
        if s.k == "assign" and s.rv.k == "binop" and s.rv.j["op"].endswith("WithOverflow"):
            return (s.rv.j["op"][: -len("WithOverflow")], s.rv.ops[0], s.rv.ops[1], s)
    return None
