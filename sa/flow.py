"""Per-body flow facts: points-to (flow-insensitive, mutability-aware), write effects,
a dependence graph (data + control) with an inter-procedural slicer, and switch atoms.

Soundness direction: dependence and points-to are OVER-approximated (unknown callees make
their result depend on every argument and may write through every mutable pointer they
receive; returned values may point wherever any argument points).  Therefore "no dependence
path" and "not written" are definite facts; "depends"/"written" are may-facts.
"""
import os
from collections import defaultdict

from mir import Place, Operand, short

# callees that take `&mut X` but only advance/consume X itself (never write deeper than X)
SHALLOW_MUT = {
    "std::iter::Iterator::next",
    "std::iter::Iterator::position",
    "std::iter::Iterator::find",
    "std::iter::Iterator::any",
    "std::iter::Iterator::all",
    "std::iter::Iterator::by_ref",
    "std::iter::DoubleEndedIterator::next_back",
}


def is_ref_ty(ty):
    return ty.startswith("&")


def is_mut_ref_ty(ty):
    return ty.startswith("&mut ") or ty.startswith("&'") and " mut " in ty.split(" ", 2)[1:2]


def may_hold_ptr(ty):
    """can a value of this type carry a pointer into other objects?  (generic T/A are values: A-T)"""
    return any(m in ty for m in ("&", "*const", "*mut", "'", "dyn ", "impl ", "{closure", "fn("))


FIELD_SENSITIVE = not os.environ.get("VERIF_NO_FIELDS")


class DepGraph(defaultdict):
    """dependence graph; the entries of field nodes ("LF", local, i) are computed on demand"""

    def __init__(self, flow):
        super().__init__(set)
        self.flow = flow
        self.field_defs = defaultdict(lambda: defaultdict(set))   # S -> i -> reads of what was stored in field i
        self.whole_src = defaultdict(list)                        # S -> [(place copied from, control nodes)]
        self.opaque = defaultdict(set)                            # S -> reads of every other definition

    def _lf(self, n):
        (_, S, i) = n
        out = set(self.opaque.get(S, ())) | set(self.field_defs.get(S, {}).get(i, ()))
        for (pl, ctrl) in self.whole_src.get(S, ()):
            out |= self.flow._place_reads_field(pl, i) | ctrl
        return out

    def get(self, n, default=None):
        if isinstance(n, tuple) and n and n[0] == "LF":
            return self._lf(n)
        return super().get(n, default)

    def __missing__(self, n):
        if isinstance(n, tuple) and n and n[0] == "LF":
            return self._lf(n)
        return super().__missing__(n)


def L(n):
    return ("L", n)


def P(n, fields=()):
    return ("P", n, tuple(fields))


class Flow:
    def __init__(self, body, prog):
        self.b = body
        self.prog = prog
        self.nloc = len(body.locals)
        self.pts = [dict() for _ in range(self.nloc)]  # local -> {obj: mut}
        self._holds = [may_hold_ptr(l["ty"]) for l in body.locals]
        self._compute_pts()
        self._dep = None
        self._writes = None
        self._atoms = {}
        self.closure_locals = {}
        for st in body.stmts():
            if st.k == "assign" and st.rv.k == "aggr" and st.rv.j["ak"] == "closure" and not st.lhs.proj:
                self.closure_locals[st.lhs.local] = st.rv.j["closure"]

    # ------------------------------------------------------------------ points-to
    def _param_obj(self, n):
        return P(n, ())

    def _pts_of_obj(self, o):
        """what a pointer stored in object o may point to"""
        if o[0] == "L":
            return self.pts[o[1]]
        # pointer stored in parameter memory: an abstract pointee
        return {("P", o[1], o[2] + ("*",)): True}

    def resolve(self, place, for_write=False):
        """objects denoted by a place -> {obj: mut_path} (mut_path: reached via mutable pointers only)"""
        cur = {L(place.local): True}
        for e in place.proj:
            if e == "*":
                nxt = {}
                for o, m in cur.items():
                    for t, tm in self._pts_of_obj(o).items():
                        nxt[t] = nxt.get(t, False) or (m and tm)
                cur = nxt
            elif isinstance(e, dict) and "f" in e:
                nxt = {}
                for o, m in cur.items():
                    if o[0] == "P":
                        nxt[("P", o[1], o[2] + (e["f"],))] = m
                    else:
                        nxt[o] = m
                cur = nxt
            # index / downcast / subslice: same object (whole-object granularity)
        return cur

    def _add_pts(self, n, objs):
        ch = False
        if not self._holds[n]:
            return False
        d = self.pts[n]
        for o, m in objs.items():
            if o not in d:
                d[o] = m
                ch = True
            elif m and not d[o]:
                d[o] = True
                ch = True
        return ch

    def _operand_pts(self, op):
        """pointers carried by an operand value"""
        if op.place is None:
            return {}
        p = op.place
        if not p.proj:
            return self.pts[p.local]
        # a value read from a place: the pointers stored in the denoted objects
        out = {}
        for o, m in self.resolve(p).items():
            for t, tm in self._pts_of_obj(o).items():
                out[t] = out.get(t, False) or tm
        return out

    def _compute_pts(self):
        b = self.b
        for n in range(1, b.arg_count + 1):
            ty = b.local_ty(n)
            if self._holds[n]:
                self.pts[n][self._param_obj(n)] = ("&mut" in ty)
        changed = True
        it = 0
        while changed and it < 50:
            it += 1
            changed = False
            for blk in b.normal_blocks():
                for s in blk.stmts:
                    if s.k != "assign":
                        continue
                    rv = s.rv
                    new = {}
                    if rv.k == "ref" or rv.k == "rawptr":
                        mut = rv.j.get("bk") == "mut" or "Mut" in str(rv.j.get("bk"))
                        for o, m in self.resolve(rv.place).items():
                            new[o] = mut and m if rv.place.has_deref() else mut
                    elif rv.k in ("use", "cast", "aggr", "repeat", "copyderef", "unop", "binop"):
                        ops = list(rv.ops)
                        for o in ops:
                            for t, m in self._operand_pts(o).items():
                                new[t] = new.get(t, False) or m
                        if rv.k == "copyderef":
                            for o, m in self.resolve(rv.place).items():
                                for t, tm in self._pts_of_obj(o).items():
                                    new[t] = new.get(t, False) or tm
                    if not new:
                        continue
                    # destination: locals denoted by lhs (stores into param memory are not tracked)
                    if not s.lhs.has_deref():
                        changed |= self._add_pts(s.lhs.local, new)
                    else:
                        for o, m in self.resolve(s.lhs).items():
                            if o[0] == "L":
                                changed |= self._add_pts(o[1], new)
                t = blk.term
                if t.k == "call":
                    new = {}
                    for a in t.args:
                        for o, m in self._operand_pts(a).items():
                            new[o] = new.get(o, False) or m
                    # callee may also store argument pointers into memory reachable through
                    # mutable arguments (e.g. Vec::push(&mut v, &x)): v's object gains x's pointers
                    if new:
                        if not t.dest.has_deref():
                            changed |= self._add_pts(t.dest.local, new)
                        for a in t.args:
                            if a.place is None:
                                continue
                            for o, m in self._operand_pts(a).items():
                                if m and o[0] == "L":
                                    changed |= self._add_pts(o[1], {k: v for k, v in new.items() if k != o})

    # ------------------------------------------------------------------ write effects
    def mut_reach(self, op, deep=True):
        """objects a callee may write when handed this operand"""
        out = set()
        start = {o for o, m in self._operand_pts(op).items() if m}
        work = list(start)
        while work:
            o = work.pop()
            if o in out:
                continue
            out.add(o)
            if deep and o[0] == "L":
                for t, m in self.pts[o[1]].items():
                    if m and t not in out:
                        work.append(t)
        return out

    def writes(self):
        """list of (bb, site, obj, kind) : direct writes in this body (callee summaries are
        applied by Effects, not here).  kind: assign | call:<short>"""
        if self._writes is not None:
            return self._writes
        out = []
        for blk in self.b.normal_blocks():
            for s in blk.stmts:
                if s.k == "assign" and s.lhs.has_deref():
                    for o, m in self.resolve(s.lhs).items():
                        out.append((blk.i, s, o, "assign"))
                elif s.k == "assign" and s.lhs.proj:
                    out.append((blk.i, s, L(s.lhs.local), "assign"))
            t = blk.term
            if t.k == "call":
                nm = t.callee.short if t.callee else "<indirect>"
                deep = nm not in SHALLOW_MUT
                for a in t.args:
                    for o in self.mut_reach(a, deep):
                        out.append((blk.i, t, o, "call:" + nm))
        self._writes = out
        return out

    # ------------------------------------------------------------------ dependence graph
    def _place_reads(self, place):
        """dependence sources of reading `place`"""
        if self.b.kind == "closure" and place.local == 1:
            up = next((e["f"] for e in place.proj if isinstance(e, dict) and "f" in e and e["f"].startswith("^")), None)
            if up is not None:
                out = {("UPV", up[1:])}
                if FIELD_SENSITIVE:
                    k0 = next(k for k, e in enumerate(place.proj) if isinstance(e, dict) and e.get("f") == up)
                    rest = [e for e in place.proj[k0 + 1:]]
                    if rest and rest[0] == "*":
                        rest = rest[1:]
                    if k0 <= 1 and rest and isinstance(rest[0], dict) and "f" in rest[0] and "i" in rest[0]:
                        out = {("UPVF", up[1:], rest[0]["i"])}
                for i in place.index_locals():
                    out.add(L(i))
                return out
        p0 = place.proj[0] if place.proj else None
        if FIELD_SENSITIVE and isinstance(p0, dict) and "f" in p0 and "i" in p0:
            # a field of a local struct / tuple: only what was stored in that field (see dep())
            out = {("LF", place.local, p0["i"])}
        else:
            out = {L(place.local)}
        for i in place.index_locals():
            out.add(L(i))
        if place.has_deref():
            objs = self.resolve(place)
            for o in objs:
                out.add(o if o[0] == "L" else ("SRC",) + o[1:])
            if FIELD_SENSITIVE and self.b.kind != "closure" and 1 <= place.local <= self.b.arg_count and place.proj and place.proj[0] == "*" and objs and all(o[0] == "P" and o[1] == place.local for o in objs) and any(isinstance(e, dict) and "f" in e for e in place.proj):
                # `(*p).f` with p a reference PARAMETER: what is read is the memory behind p (the SRC nodes, followed to
                # the caller's argument field by field), not the pointer value as a whole
                out.discard(L(place.local))
        return out

    def _place_reads_field(self, place, i):
        """dependence sources of reading field #i of the struct / tuple stored in `place`"""
        if self.b.kind == "closure" and place.local == 1 and place.proj:
            pr = place.proj[1:] if place.proj[0] == "*" else place.proj
            # a struct captured by reference is read through one more deref: `*(*_1).^options`
            while len(pr) > 1 and pr[-1] == "*":
                pr = pr[:-1]
            if len(pr) == 1 and isinstance(pr[0], dict) and pr[0].get("f", "").startswith("^") and FIELD_SENSITIVE:
                return {("UPVF", pr[0]["f"][1:], i)}
            return self._place_reads(place)
        if place.has_deref():
            # `*r` where r is a copy of the reference a closure captured (`r = (*_1).^options`): the struct behind it is
            # the captured variable, field by field
            if FIELD_SENSITIVE and self.b.kind == "closure" and all(e == "*" for e in place.proj):
                d = self.single_def(place.local)
                rv = getattr(d, "rv", None) if d is not None else None
                if rv is not None and rv.k in ("use", "ref", "copyderef"):
                    src = rv.ops[0].place if rv.k == "use" and rv.ops else rv.place
                    if src is not None and src.local == 1 and any(isinstance(e, dict) and str(e.get("f", "")).startswith("^") for e in src.proj):
                        pr = src.proj[1:] if src.proj and src.proj[0] == "*" else src.proj
                        while len(pr) > 1 and pr[-1] == "*":
                            pr = pr[:-1]
                        if len(pr) == 1 and isinstance(pr[0], dict):
                            return {("UPVF", pr[0]["f"][1:], i)}
            return self._place_reads(place)
        if not place.proj and FIELD_SENSITIVE:
            return {("LF", place.local, i)}
        return self._place_reads(place)

    def pointee_field_reads(self, op, fname):
        """reads of field `fname` of the local struct an operand points to (`&s`, s built by one aggregate), or None"""
        if op.place is None or op.place.proj:
            return None
        l = op.place.local
        for _ in range(4):
            d = self.single_def(l)
            rv = getattr(d, "rv", None) if d is not None else None
            if rv is None:
                return None
            if rv.k == "use" and rv.ops and rv.ops[0].place is not None and not rv.ops[0].place.proj:
                l = rv.ops[0].place.local
                continue
            if rv.k == "ref" and rv.place is not None and not rv.place.proj:
                S = rv.place.local
                for (dbb, dd) in self.b.assigns_to(S):
                    rv2 = getattr(dd, "rv", None)
                    if rv2 is not None and rv2.k == "aggr" and rv2.j.get("ak") == "adt" and fname in (rv2.j.get("fields") or []):
                        return {("LF", S, (rv2.j.get("fields") or []).index(fname))}
                return None
            if rv.k == "ref" and rv.place is not None and rv.place.proj == ["*"]:
                l = rv.place.local
                continue
            return None
        return None

    def _op_reads_field(self, op, i):
        if op.place is None:
            return self._op_reads(op)
        pl = op.place
        if not pl.proj:
            # a reference temporary: `_t = &S` (by-reference capture of a struct)
            d = self.single_def(pl.local)
            if d is not None and getattr(d, "rv", None) is not None and d.rv.k == "ref" and d.rv.place is not None and not d.rv.place.has_deref():
                return self._place_reads_field(d.rv.place, i)
        return self._place_reads_field(pl, i)

    def _op_reads(self, op):
        if op.place is not None:
            return self._place_reads(op.place)
        if op.c is not None:
            c = op.c
            if "closure" in c:
                return {("CLOS", c["closure"])}
            if "fn" in c:
                return set()
            return {("CONST", c["s"])}
        return set()

    def dep(self):
        if self._dep is not None:
            return self._dep
        b = self.b
        dep = DepGraph(self)
        cd = b.control_deps()
        for blk in b.normal_blocks():
            ctrl = {("SW", a) for (a, s) in cd.get(blk.i, ())}
            if blk.term.k == "switch":
                dep[("SW", blk.i)] |= self._op_reads(blk.term.discr) | ctrl
            for s in blk.stmts:
                if s.k != "assign":
                    continue
                rv = s.rv
                reads = set()
                for o in rv.ops:
                    reads |= self._op_reads(o)
                if rv.place is not None:
                    reads |= self._place_reads(rv.place)
                if rv.k == "aggr" and rv.j["ak"] == "closure":
                    reads.add(("CLOS", rv.j["closure"]))
                reads |= ctrl
                if s.lhs.has_deref():
                    for o in self.resolve(s.lhs):
                        n = o if o[0] == "L" else ("SRC",) + o[1:]
                        dep[n] |= reads
                        if o[0] == "L":
                            dep.opaque[o[1]] |= reads
                    dep[L(s.lhs.local)]  # touch
                else:
                    S = s.lhs.local
                    dep[L(S)] |= reads
                    for i in s.lhs.index_locals():
                        dep[L(S)].add(L(i))
                    p0 = s.lhs.proj[0] if s.lhs.proj else None
                    if not s.lhs.proj and rv.k == "aggr" and rv.j["ak"] in ("adt", "tuple", "closure"):
                        for i, o in enumerate(rv.ops):
                            dep.field_defs[S][i] |= self._op_reads(o) | ctrl
                    elif not s.lhs.proj and rv.k == "use" and rv.ops and rv.ops[0].place is not None:
                        dep.whole_src[S].append((rv.ops[0].place, ctrl))
                    elif isinstance(p0, dict) and "f" in p0 and "i" in p0:
                        dep.field_defs[S][p0["i"]] |= reads | {L(i) for i in s.lhs.index_locals()}
                    else:
                        dep.opaque[S] |= reads | {L(i) for i in s.lhs.index_locals()}
            t = blk.term
            if t.k == "call":
                cn = ("CALL", blk.i)
                reads = set(ctrl)
                for a in t.args:
                    reads |= self._op_reads(a)
                reads |= self._op_reads(t.func)
                dep[cn] |= reads
                if t.dest.has_deref():
                    for o in self.resolve(t.dest):
                        dep[o if o[0] == "L" else ("SRC",) + o[1:]].add(cn)
                        if o[0] == "L":
                            dep.opaque[o[1]].add(cn)
                else:
                    dep[L(t.dest.local)].add(cn)
                    p0 = t.dest.proj[0] if t.dest.proj else None
                    if isinstance(p0, dict) and "f" in p0 and "i" in p0:
                        dep.field_defs[t.dest.local][p0["i"]].add(cn)
                    else:
                        dep.opaque[t.dest.local].add(cn)
                nm = t.callee.short if t.callee else "<indirect>"
                deep = nm not in SHALLOW_MUT
                for a in t.args:
                    for o in self.mut_reach(a, deep):
                        dep[o if o[0] == "L" else ("SRC",) + o[1:]].add(cn)
                        if o[0] == "L":
                            dep.opaque[o[1]].add(cn)
            elif t.k == "assert":
                pass
        self._dep = dep
        return dep

    def call_at(self, bb):
        return self.b.blocks[bb].term

    def copies_of(self, local):
        """locals that hold a plain copy / move of `local` (a closure bound to a variable is copied
        into the adaptor call through such temporaries)"""
        out = {local}
        changed = True
        while changed:
            changed = False
            for s in self.b.stmts():
                if s.k == "assign" and not s.lhs.proj and s.rv is not None and s.rv.k == "use" and s.rv.ops and s.rv.ops[0].place is not None and not s.rv.ops[0].place.proj and s.rv.ops[0].place.local in out and s.lhs.local not in out:
                    out.add(s.lhs.local)
                    changed = True
                elif s.k == "assign" and not s.lhs.proj and s.rv is not None and s.rv.k == "ref" and s.rv.place is not None and not s.rv.place.proj and s.rv.place.local in out and s.lhs.local not in out:
                    # `&f`: a reference to the whole value stands for it (`.map(&per_item)`)
                    out.add(s.lhs.local)
                    changed = True
        return out

    def slice_local(self, starts, data_only=False):
        """intra-procedural backward slice: set of nodes reachable from `starts`"""
        dep = self.dep()
        seen = set()
        work = list(starts)
        while work:
            n = work.pop()
            if n in seen:
                continue
            seen.add(n)
            for m in dep.get(n, ()):
                if data_only and m[0] == "SW":
                    continue
                if m not in seen:
                    work.append(m)
        # a field node also marks its local / upvar as touched (membership tests), without following the rest of it
        for n in list(seen):
            if n[0] == "LF":
                seen.add(L(n[1]))
            elif n[0] == "UPVF":
                seen.add(("UPV", n[1]))
        return seen

    # ------------------------------------------------------------------ describing values
    def single_def(self, local):
        ds = self.b.assigns_to(local)
        if len(ds) == 1:
            return ds[0][1]
        return None

    def field_path(self, place):
        """human/readable source path of a place: param or variable name + fields"""
        b = self.b
        root = b.local_name(place.local)
        fields = []
        proj = place.proj
        if b.kind == "closure" and place.local == 1:
            for k, e in enumerate(proj):
                if isinstance(e, dict) and "f" in e and e["f"].startswith("^"):
                    root = e["f"][1:]
                    proj = proj[k + 1 :]
                    break
        for e in proj:
            if isinstance(e, dict) and "f" in e:
                fields.append(e["f"])
            elif isinstance(e, dict) and "idx" in e:
                fields.append("[]")
            elif isinstance(e, dict) and "as" in e:
                fields.append("as " + e["as"])
        if root is None:
            # follow a temp that is a reference/copy of another place
            d = self.single_def(place.local)
            if d is not None and hasattr(d, "rv") and d.rv is not None:
                rv = d.rv
                if rv.k in ("ref", "copyderef") and rv.place is not None:
                    base = self.field_path(rv.place)
                    return base + ("." + ".".join(fields) if fields else "")
                if rv.k == "use" and rv.ops[0].place is not None:
                    base = self.field_path(rv.ops[0].place)
                    return base + ("." + ".".join(fields) if fields else "")
            if d is not None and getattr(d, "k", None) == "call":
                nm = d.callee.short.split("::")[-1] if d.callee else "call"
                if nm in ("deref", "deref_mut", "borrow", "as_ref", "clone", "index", "index_mut", "into_iter", "iter", "unwrap", "into") and d.args:
                    if d.args[0].place is not None:
                        base = self.field_path(d.args[0].place)
                        if nm in ("index", "index_mut"):
                            base += "[]"
                        return base + ("." + ".".join(fields) if fields else "")
                return nm + "(..)" + ("." + ".".join(fields) if fields else "")
            root = "_%d" % place.local
        return root + ("." + ".".join(fields) if fields else "")

    def describe(self, op, depth=4):
        """structural description of the value of an operand (through single-def temps)"""
        if op.place is None:
            if op.c is not None:
                s = op.c["s"]
                if "promoted[" in s:
                    v = self.promoted_value(s)
                    if v:
                        return ("const", self.named_const_literal(v) or v)
                v = self.named_const_literal(s)
                if v is not None:
                    return ("const", v)
                return ("const", s)
            return ("?",)
        p = op.place
        if len(p.proj) == 1 and isinstance(p.proj[0], dict) and "f" in p.proj[0] and self.b.local_name(p.local) is None and depth > 0:
            # `match (a, b) { .. }` tests fields of a tuple built just before: describe the component
            d = self.single_def(p.local)
            rv = getattr(d, "rv", None) if d is not None else None
            if rv is not None and rv.k == "aggr" and rv.j.get("ak") == "tuple" and str(p.proj[0]["f"]).isdigit() and int(p.proj[0]["f"]) < len(rv.ops):
                return self.describe(rv.ops[int(p.proj[0]["f"])], depth - 1)
        ix = self._index_form(p, depth)
        if ix is not None:
            return ix
        if p.proj or self.b.local_name(p.local) is not None or depth <= 0:
            if not p.proj and self.b.local_name(p.local) is None:
                return ("tmp", p.local)
            return ("place", self.field_path(p))
        d = self.single_def(p.local)
        if d is None:
            return ("tmp", p.local)
        return self.describe_def(d, depth)

    def _index_form(self, p, depth):
        """`base[i]` written as a built-in place projection (slices, arrays) gets the description of the call form
        `Index::index(base, i)` that the same expression has on a Vec"""
        if depth <= 0 or not p.proj:
            return None
        k = None
        for j, e in enumerate(p.proj):
            if isinstance(e, dict) and "idx" in e:
                k = j
        if k is None or any(e != "*" for e in p.proj[k + 1:]):
            return None
        base = _PlaceOp(p.local, p.proj[:k], "[_]")
        idx = _LocalOperand(p.proj[k]["idx"], "usize")
        return ("call", "std::ops::Index::index", (self.describe(base, depth - 1), self.describe(idx, depth - 1)))

    def describe_def(self, d, depth=4):
        """description of the value a given definition (assignment or call terminator) produces"""
        if getattr(d, "k", None) == "call":
            nm = d.callee.short if d.callee else "<indirect>"
            return ("call", nm, tuple(self.describe(a, depth - 1) for a in d.args))
        rv = d.rv
        if rv.k == "use" or rv.k == "cast":
            return self.describe(rv.ops[0], depth - 1)
        if rv.k in ("ref", "copyderef"):
            if all(e == "*" for e in rv.place.proj) and self.b.local_name(rv.place.local) is None:
                # a re-borrow of a temporary: describe the temporary itself
                return self.describe(_LocalOperand(rv.place.local, self.b.local_ty(rv.place.local)), depth - 1)
            ix = self._index_form(rv.place, depth)
            if ix is not None:
                return ix
            return ("place", self.field_path(rv.place))
        if rv.k == "binop":
            return ("binop", rv.j["op"], self.describe(rv.ops[0], depth - 1), self.describe(rv.ops[1], depth - 1))
        if rv.k == "unop":
            return ("unop", rv.j["op"], self.describe(rv.ops[0], depth - 1))
        if rv.k == "discr":
            return ("discr", self.field_path(rv.place), rv.place.ty)
        if rv.k == "aggr":
            if rv.j["ak"] == "adt":
                return ("adt", short(rv.j["adt"]) + "::" + rv.j["variant"], tuple(self.describe(o, depth - 1) for o in rv.ops))
            return (rv.j["ak"],) + tuple(self.describe(o, depth - 1) for o in rv.ops)
        return ("?", rv.k)

    def named_const_literal(self, s):
        """`const path::NAME` whose initialiser is a literal -> the literal, in the form MIR prints literals"""
        nm = s[6:] if s.startswith("const ") else s
        it = self.prog.items.get(nm.strip())
        if not it or it.get("kind") not in ("const", "static"):
            return None
        init = it.get("init")
        if not isinstance(init, dict):
            return None
        if "str" in init:
            return 'const "%s"' % init["str"]
        if "bool" in init:
            return "const %s" % ("true" if init["bool"] else "false")
        return None

    def promoted_value(self, s):
        """`...::promoted[i]` -> 'Enum::Variant' / const string if the promoted body is a simple aggregate"""
        try:
            idx = int(s.rsplit("promoted[", 1)[1].split("]")[0])
        except Exception:
            return None
        pl = self.b.item["mir"].get("promoted", [])
        if idx >= len(pl):
            return None
        for blk in pl[idx]["blocks"]:
            for st in blk["stmts"]:
                rv = st.get("rv", {})
                if rv.get("k") == "aggr" and rv.get("ak") == "adt":
                    return short(rv["adt"]) + "::" + rv["variant"]
                if rv.get("k") == "use" and rv["ops"][0]["k"] == "const":
                    c = rv["ops"][0]["c"]
                    if "fn" not in c:
                        return c["s"]
        return None

    # an atom id is a switch block index, or ("def", bb, idx) for the non-constant definition of a
    # named boolean (Body.implied_edges); these helpers serve both
    def atom_block(self, a):
        return a[1] if isinstance(a, tuple) else a

    def atom_def(self, a):
        """the statement / call terminator that computes the tested value, if it is a single one"""
        if isinstance(a, tuple):
            blk = self.b.blocks[a[1]]
            return blk.term if a[2] == "term" else blk.stmts[a[2]]
        t = self.b.blocks[a].term
        if t.k != "switch" or t.discr.place is None:
            return None
        return self.single_def(t.discr.place.local)

    def atom_reads(self, a):
        if isinstance(a, tuple):
            d = self.atom_def(a)
            rv = getattr(d, "rv", None)
            out = set()
            for o in (rv.ops if rv is not None else d.args):
                out |= self._op_reads(o)
            return out
        return self._op_reads(self.b.blocks[a].term.discr)

    def atom_span(self, a):
        d = self.atom_def(a) if isinstance(a, tuple) else self.b.blocks[a].term
        return d.span if d is not None else None

    def atom(self, bb):
        """what the switch at the end of block bb tests"""
        if bb in self._atoms:
            return self._atoms[bb]
        if isinstance(bb, tuple):
            # synthetic atom: the non-constant definition of a named boolean (see Body.implied_edges)
            _, dbb, idx = bb
            blk = self.b.blocks[dbb]
            test = self.describe_def(blk.term if idx == "term" else blk.stmts[idx], depth=10)
            a = {"bb": bb, "test": test, "targets": [(0, "F")], "otherwise": "T", "ty": "bool", "synthetic": True}
            self._atoms[bb] = a
            return a
        t = self.b.blocks[bb].term
        a = None
        if t.k == "switch":
            a = {"bb": bb, "test": self.describe(t.discr, depth=10), "targets": list(t.targets), "otherwise": t.otherwise, "ty": t.j["discr_ty"]}
        self._atoms[bb] = a
        return a


class _PlaceOp:
    """an operand that reads an arbitrary place"""

    def __init__(self, local, proj, ty):
        self.place = Place({"l": local, "p": proj, "ty": ty})
        self.c = None
        self.k = "copy"


class _LocalOperand:
    """an operand that reads a whole local (used to describe temporaries behind re-borrows)"""

    def __init__(self, local, ty):
        self.place = Place({"l": local, "p": [], "ty": ty})
        self.c = None
        self.k = "copy"


def fmt_desc(d):
    if not isinstance(d, tuple):
        return str(d)
    k = d[0]
    if k == "place":
        return d[1]
    if k == "const":
        s = d[1]
        return s[6:] if s.startswith("const ") else s
    if k == "tmp":
        return "_%d" % d[1]
    if k == "call":
        return "%s(%s)" % (d[1].split("::")[-1] if "::" in d[1] else d[1], ", ".join(fmt_desc(x) for x in d[2]))
    if k == "binop":
        return "%s(%s, %s)" % (d[1], fmt_desc(d[2]), fmt_desc(d[3]))
    if k == "unop":
        return "%s(%s)" % (d[1], fmt_desc(d[2]))
    if k == "discr":
        return "discriminant(%s)" % d[1]
    if k == "adt":
        return "%s{%s}" % (d[1], ", ".join(fmt_desc(x) for x in d[2]))
    if k == "index":
        return "%s[%s]" % (fmt_desc(d[1]), fmt_desc(d[2]))
    return "%s(%s)" % (k, ", ".join(fmt_desc(x) for x in d[1:]))


def desc_mentions(d, pred):
    """does any leaf/inner node of a description satisfy pred(node)"""
    if not isinstance(d, tuple) or not d:
        return False
    if isinstance(d[0], str) and pred(d):
        return True
    for x in d[1:]:
        if isinstance(x, tuple):
            if x and isinstance(x[0], tuple):
                if any(desc_mentions(y, pred) for y in x):
                    return True
            elif desc_mentions(x, pred):
                return True
    return False


SELECTOR_CALLS = ("filter", "take_while", "skip_while", "retain", "find", "position", "any", "all", "skip", "take", "step_by")


class Flows:
    """cache of per-body Flow objects + inter-procedural slicing"""

    def __init__(self, prog):
        self.prog = prog
        self._f = {}
        self._callers = None

    def of(self, body_or_path):
        p = body_or_path if isinstance(body_or_path, str) else body_or_path.path
        if p not in self._f:
            self._f[p] = Flow(self.prog.bodies[p], self.prog)
        return self._f[p]

    def callers(self):
        """callee path -> list of (caller path, bb)"""
        if self._callers is None:
            c = defaultdict(list)
            for p, b in self.prog.bodies.items():
                for t in b.calls():
                    if t.callee:
                        tp = t.callee.target_path(self.prog)
                        if tp:
                            c[tp].append((p, t.bb))
            self._callers = c
        return self._callers

    def closure_sites(self, closure_path):
        """(parent body path, stmt) where the closure value is created"""
        it = self.prog.items[closure_path]
        parent = it["parent"]
        out = []
        pb = self.prog.bodies.get(parent)
        if pb is None:
            return out
        for s in pb.stmts():
            if s.k == "assign" and s.rv.k == "aggr" and s.rv.j["ak"] == "closure" and s.rv.j["closure"] == closure_path:
                out.append((parent, s))
        return out

    def slice(self, path, starts, up=True, down=True, max_nodes=400000, data_only=False, roots=(), skip_captures=False, sw_filter=None, max_stack=3, value_only=False, skip_selectors=False, stop_at=None):
        """inter-procedural backward slice with call-string contexts.
        returns set of (body_path, node).  `down`: True = descend from a local call into the
        callee's return value and from closure values into closure bodies; "clos" = closures only.
        `up`: from a parameter continue at the call sites -- at the call site we descended from if we
        came down (realizable paths only), otherwise at every caller / closure creation site, unless
        the body is in `roots`.  `value_only`: follow control dependence only where it selects between
        several definitions (what the value IS, not whether the statement runs)."""
        seen = set()
        work = [(path, n, ()) for n in starts]
        prog = self.prog
        out = set()
        while work:
            if len(seen) > max_nodes:
                break
            item = work.pop()
            if item in seen:
                continue
            seen.add(item)
            bp, n, stack = item
            out.add((bp, n))
            if stop_at is not None and stop_at(bp, n):
                continue  # a producer the caller wants to see but not look behind
            fl = self.of(bp)
            b = fl.b
            fld = None
            if n[0] == "LF":
                out.add((bp, L(n[1])))
                fld = n[2]
            elif n[0] == "UPVF":
                out.add((bp, ("UPV", n[1])))
                fld = n[2]
            is_clos_val = skip_captures and n[0] == "L" and n[1] in fl.closure_locals
            sel_allowed = None
            if skip_selectors and n[0] == "CALL":
                # PROVENANCE of the elements: filter/take_while/... only select among the receiver's
                # elements; what the predicate reads does not become part of the result
                t_ = b.blocks[n[1]].term
                if t_.callee and t_.callee.short.split("::")[-1] in SELECTOR_CALLS and t_.args:
                    sel_allowed = fl._op_reads(t_.args[0])
            for m in fl.dep().get(n, ()):
                if sel_allowed is not None and m[0] != "SW" and m not in sel_allowed:
                    continue
                if data_only and m[0] == "SW":
                    continue
                if sw_filter is not None and m[0] == "SW" and not stack and not sw_filter(bp, m[1]):
                    continue
                if value_only and m[0] == "SW":
                    # VALUE dependence: a branch decides a value only by selecting among several
                    # definitions of a local (or writes to memory); the conditions under which a
                    # single definition / a call / another branch executes at all do not
                    if n[0] == "SW":
                        # ... except the other half of one compound condition: in `a && b` / `a || b` the two
                        # switches share an exit, and together they select the definition
                        if not (_exits(b, n[1]) & _exits(b, m[1])):
                            continue
                    if n[0] == "CALL":
                        tc_ = b.blocks[n[1]].term
                        dl = tc_.dest
                        # a call that changes something in place through a `&mut` argument (mem::swap under a
                        # condition) is one more definition of that object: its condition is part of the value
                        mutates = any(fl.mut_reach(a_, False) for a_ in tc_.args if a_.place is not None and a_.place.ty.startswith("&mut"))
                        if not mutates and (dl.has_deref() or len(b.assigns_to(dl.local)) <= 1):
                            continue
                    if n[0] in ("L", "LF") and isinstance(n[1], int) and len(b.assigns_to(n[1])) <= 1:
                        continue
                if is_clos_val and m[0] != "CLOS":
                    continue  # captures are reached through the closure body's upvar reads
                work.append((bp, m, stack))
            if n[0] in ("UPV", "UPVF"):
                caps = [c["name"] for c in b.item.get("captures", [])]

                def cap_reads(pf_, o_):
                    return pf_._op_reads(o_) if fld is None else pf_._op_reads_field(o_, fld)
                if stack and stack[-1][0] == "clos":
                    # we descended into this closure from its creation site
                    (_, pp, sbb, sidx) = stack[-1]
                    pb = prog.bodies[pp]
                    s_ = pb.blocks[sbb].stmts[sidx]
                    for ci, cname in enumerate(caps):
                        if cname == n[1] and ci < len(s_.rv.ops):
                            for r in cap_reads(self.of(pp), s_.rv.ops[ci]):
                                work.append((pp, r, stack[:-1]))
                elif up and bp not in roots:
                    for (pp, s_) in self.closure_sites(bp):
                        for ci, cname in enumerate(caps):
                            if cname == n[1] and ci < len(s_.rv.ops):
                                for r in cap_reads(self.of(pp), s_.rv.ops[ci]):
                                    work.append((pp, r, ()))
            elif n[0] == "CALL" and down is True and len(stack) < max_stack:
                t = b.blocks[n[1]].term
                tp = t.callee.target_path(prog) if t.callee else None
                if tp:
                    work.append((tp, L(0), stack + (("call", bp, n[1]),)))
            elif n[0] == "CLOS" and down and len(stack) < max_stack:
                cp = n[1]
                if cp in prog.bodies:
                    cf = self.of(cp)
                    sites = self.closure_sites(cp)
                    for (pp, s_) in sites:
                        if pp != bp:
                            continue
                        nstack = stack + (("clos", pp, s_.bb, s_.idx),)
                        if skip_selectors and data_only:
                            # provenance mode: what a closure contributes to the adaptor's result is what it RETURNS
                            # (`filter_map(|n| if keep(n) { Some(n.clone()) } else { None })` returns n, not the test)
                            work.append((cp, L(0), nstack))
                            continue
                        for k in list(cf.dep().keys()):
                            if data_only and k[0] == "SW":
                                continue
                            if k[0] in ("CALL", "SW", "SRC") or k == L(0):
                                work.append((cp, k, nstack))
            elif n[0] in ("L", "SRC", "LF") and isinstance(n[1], int):
                idx = n[1]
                if not (1 <= idx <= b.arg_count):
                    continue
                if n[0] == "SRC" and FIELD_SENSITIVE and b.kind != "closure" and len(n) > 2 and n[2]:
                    # memory behind a reference parameter, field by field: `(*p).f` with the caller passing `&s` of a
                    # local struct s is field f of s
                    fn_ = next((f_ for f_ in n[2] if f_ != "*"), None)
                    sites = []
                    if stack:
                        if stack[-1][0] == "call":
                            sites = [(stack[-1][1], stack[-1][2], stack[:-1])]
                    elif up and bp not in roots:
                        sites = [(cp, cbb, ()) for (cp, cbb) in self.callers().get(bp, ())]
                    done_all = bool(sites) and fn_ is not None
                    pend = []
                    for (cp, cbb, st_) in sites:
                        cf = self.of(cp)
                        t = cf.b.blocks[cbb].term
                        r_ = cf.pointee_field_reads(t.args[idx - 1], fn_) if (fn_ is not None and idx - 1 < len(t.args)) else None
                        if r_ is None:
                            done_all = False
                            break
                        pend += [(cp, r, st_) for r in r_]
                    if done_all:
                        work.extend(pend)
                        continue
                if n[0] == "LF" and not (b.kind == "closure" and idx == 1):
                    # field #fld of a by-value struct / tuple parameter: the same field of the argument
                    sites = []
                    if stack:
                        if stack[-1][0] == "call":
                            sites = [(stack[-1][1], stack[-1][2], stack[:-1])]
                    elif up and bp not in roots and b.kind != "closure":
                        sites = [(cp, cbb, ()) for (cp, cbb) in self.callers().get(bp, ())]
                    if sites or b.kind != "closure":
                        for (cp, cbb, st_) in sites:
                            cf = self.of(cp)
                            t = cf.b.blocks[cbb].term
                            if idx - 1 < len(t.args):
                                for r in cf._op_reads_field(t.args[idx - 1], fld):
                                    work.append((cp, r, st_))
                        continue
                    n = L(idx)
                if stack:
                    top = stack[-1]
                    if top[0] == "call":
                        (_, cp, cbb) = top
                        cf = self.of(cp)
                        t = cf.b.blocks[cbb].term
                        if idx - 1 < len(t.args):
                            for r in cf._op_reads(t.args[idx - 1]):
                                work.append((cp, r, stack[:-1]))
                    elif top[0] == "clos":
                        (_, pp, sbb, sidx) = top
                        pf = self.of(pp)
                        s_ = pf.b.blocks[sbb].stmts[sidx]
                        if idx == 1:
                            if n[0] == "L" and not skip_captures:
                                for o in s_.rv.ops:
                                    for r in pf._op_reads(o):
                                        work.append((pp, r, stack[:-1]))
                        else:
                            cl = pf.copies_of(s_.lhs.local)
                            for t in pf.b.calls():
                                if any(a.place is not None and a.place.local in cl for a in t.args):
                                    for a in t.args:
                                        if a.place is not None and a.place.local in cl:
                                            continue
                                        for r in pf._op_reads(a):
                                            work.append((pp, r, stack[:-1]))
                    continue
                if not up or bp in roots:
                    continue
                if b.kind == "closure":
                    if idx == 1:
                        if n[0] == "L":
                            for (pp, s_) in self.closure_sites(bp):
                                for o in s_.rv.ops:
                                    for r in self.of(pp)._op_reads(o):
                                        work.append((pp, r, ()))
                    else:
                        # closure call arguments come from the library adaptor that calls it: they derive
                        # from the adaptor's other arguments (its receiver), not from the closure itself
                        for (pp, s_) in self.closure_sites(bp):
                            pf = self.of(pp)
                            cl = pf.copies_of(s_.lhs.local)
                            for t in pf.b.calls():
                                if any(a.place is not None and a.place.local in cl for a in t.args):
                                    for a in t.args:
                                        if a.place is not None and a.place.local in cl:
                                            continue
                                        for r in pf._op_reads(a):
                                            work.append((pp, r, ()))
                else:
                    for (cp, cbb) in self.callers().get(bp, ()):
                        cf = self.of(cp)
                        t = cf.b.blocks[cbb].term
                        if idx - 1 < len(t.args):
                            for r in cf._op_reads(t.args[idx - 1]):
                                work.append((cp, r, ()))
        return out


def _exits(b, bb):
    """successors of a switch, looking through empty goto-only blocks"""
    out = set()
    for y in b.succ(bb):
        for _ in range(4):
            blk = b.blocks[y]
            if blk.term.k == "goto" and not any(s_.k == "assign" for s_ in blk.stmts):
                y = b.succ(y)[0]
            else:
                break
        out.add(y)
    return out


def sources_in(slice_set, prog):
    """summarise a slice: field sources, callee names, constants"""
    fields = set()
    calls = set()
    consts = set()
    for (bp, n) in slice_set:
        if n[0] == "SRC":
            fields.add(".".join(f for f in n[2] if f != "*"))
        elif n[0] == "CALL":
            t = prog.bodies[bp].blocks[n[1]].term
            if t.callee:
                calls.add(t.callee.short)
        elif n[0] == "CONST":
            consts.add(n[1])
    return fields, calls, consts
