"""Shared rule helpers built on the fact base: call inventories, branch regions, sibling
features, error-kind construction sites, guards."""
from collections import defaultdict

from flow import L, fmt_desc
from mir import loc_str, short


def all_calls(prog, bodies=None):
    for p, b in prog.bodies.items():
        if bodies is not None and p not in bodies:
            continue
        for t in b.calls():
            if t.callee is not None:
                yield b, t


def ipdom(body, bb):
    pd = body.postdominators()
    strict = pd.get(bb, set()) - {bb}
    for x in strict:
        if x == -1:
            continue
        if pd[x] == strict:
            return x
    return -1 if -1 in strict else None


def arm_blocks(body, sw_bb, succ):
    """blocks executed on the arm starting at `succ` of the switch at sw_bb, up to the join"""
    j = ipdom(body, sw_bb)
    avoid = {j} if j is not None and j != -1 else set()
    if succ in avoid:
        return set()
    return body.reachable_from(succ, avoid=tuple(sorted(avoid)))


def closures_created_in(prog, body, blocks=None):
    out = []
    for blk in body.normal_blocks():
        if blocks is not None and blk.i not in blocks:
            continue
        for s in blk.stmts:
            if s.k == "assign" and s.rv.k == "aggr" and s.rv.j["ak"] == "closure":
                c = s.rv.j["closure"]
                if c in prog.bodies:
                    out.append(prog.bodies[c])
        ops = []
        for s in blk.stmts:
            if s.rv is not None:
                ops.extend(s.rv.ops)
        if blk.term.k == "call":
            ops.extend(blk.term.args)
        for o in ops:
            if o.is_const() and o.c and "closure" in o.c and o.c["closure"] in prog.bodies:
                out.append(prog.bodies[o.c["closure"]])
    return out


def closures_used_in(flows, body, blocks=None):
    """closures created in the region, plus closures created elsewhere in the body (bound to a variable) whose
    value is called or handed to a call inside the region"""
    prog = flows.prog
    out = list(closures_created_in(prog, body, blocks))
    fl = flows.of(body)
    by_local = {}
    for l, cpath in fl.closure_locals.items():
        if cpath in prog.bodies:
            for c in fl.copies_of(l):
                by_local[c] = cpath
    for blk in body.normal_blocks():
        if blocks is not None and blk.i not in blocks:
            continue
        t = blk.term
        if t.k != "call":
            continue
        for a in t.args:
            if a.place is not None and not a.place.proj and a.place.local in by_local:
                cb = prog.bodies[by_local[a.place.local]]
                if cb not in out:
                    out.append(cb)
            elif a.place is not None and not a.place.proj:
                # `&closure` passed to Fn::call
                d = fl.single_def(a.place.local)
                rv = getattr(d, "rv", None) if d is not None else None
                if rv is not None and rv.k == "ref" and not rv.place.proj and rv.place.local in by_local:
                    cb = prog.bodies[by_local[rv.place.local]]
                    if cb not in out:
                        out.append(cb)
    return out


def value_descriptor(flows, root_path, body_path, operand, data_only=True):
    """provenance of an operand, robust to renaming: (root-function parameters reached,
    crate-local callees reached) through a data-only backward slice that climbs out of closures
    into the root function but not beyond it"""
    fl = flows.of(body_path)
    starts = fl._op_reads(operand)
    sl = flows.slice(body_path, starts, up=True, down="clos", data_only=data_only, roots=(root_path,), skip_captures=True)
    prog = flows.prog
    rb = prog.bodies[root_path]
    params = set()
    callees = set()
    for (bp, n) in sl:
        if bp == root_path and n[0] in ("L", "SRC") and isinstance(n[1], int) and 1 <= n[1] <= rb.arg_count:
            nm = rb.local_name(n[1]) or ("arg%d" % n[1])
            params.add(nm)
        if n[0] == "CALL":
            t = prog.bodies[bp].blocks[n[1]].term
            if t.callee and t.callee.target_path(prog) and prog.items[t.callee.target_path(prog)]["kind"] != "closure":
                callees.add(short(t.callee.target_path(prog)))
    return (frozenset(params), frozenset(callees))


def control_descriptor(flows, root_path, body_path, bb, within=None):
    """option parameters (bool / Option<_> parameters of the root function, possibly captured by a
    closure under the same name) that the switches controlling block bb test directly"""
    from flow import desc_mentions

    fl = flows.of(body_path)
    b = fl.b
    rb = flows.prog.bodies[root_path]
    opt_params = set()
    for i in range(1, rb.arg_count + 1):
        ty = rb.local_ty(i)
        if ty == "bool" or ty.startswith("std::option::Option<"):
            nm = rb.local_name(i)
            if nm:
                opt_params.add(nm)
    params = set()
    for (a, s) in b.transitive_control_deps(bb):
        if within is not None and a not in within:
            continue
        at = fl.atom(a)
        if not at:
            continue
        import panic as _p

        # a condition bound to a variable first (`let needs_full = !can_use_basic(target, ..)`) tests what
        # its definition tests
        test = _p.expand_names(fl, _p.norm(at["test"]))
        for nm in opt_params:
            if desc_mentions(test, lambda d: d[0] in ("place", "discr") and (d[1] == nm or d[1].startswith(nm + ".") or d[1].startswith(nm + " "))):
                params.add(nm)
        # ... and what the tested value is COMPUTED from, by provenance rather than by name: an option that reaches the
        # test as a field of a parameter struct (`options.cutoff`) or under another name is still that option
        try:
            rd_ = fl.atom_reads(a)
        except Exception:
            rd_ = set()
        if rd_:
            for (bp_, n_) in flows.slice(body_path, rd_, up=True, down="clos", data_only=True, roots=(root_path,), skip_captures=True):
                if bp_ == root_path and n_[0] in ("L", "SRC") and isinstance(n_[1], int) and 1 <= n_[1] <= rb.arg_count:
                    nm_ = rb.local_name(n_[1])
                    if nm_ in opt_params:
                        params.add(nm_)
    # `opt.map(|x| f(x))` runs f exactly when `opt` is Some: the closure body is "under opt" just as the
    # Some arm of `match opt` is
    if b.kind == "closure":
        for (pp, s_) in flows.closure_sites(body_path):
            pf = flows.of(pp)
            cl = s_.lhs.local
            for t in pf.b.calls():
                if not t.callee or not t.callee.short.startswith("std::option::Option::") or len(t.args) < 2:
                    continue
                passed = False
                for a in t.args[1:]:
                    if a.place is None or a.place.proj:
                        continue
                    l = a.place.local
                    hops = 0
                    while l != cl and hops < 4:
                        hops += 1
                        d = pf.single_def(l)
                        if d is None or getattr(d, "rv", None) is None or d.rv.k != "use" or d.rv.ops[0].place is None:
                            break
                        l = d.rv.ops[0].place.local
                    if l == cl:
                        passed = True
                if not passed:
                    continue
                import panic as _panic

                rd = _panic.norm(pf.describe(t.args[0], depth=8))
                for nm in opt_params:
                    if desc_mentions(rd, lambda d: d[0] in ("place", "discr") and (d[1] == nm or d[1].startswith(nm + ".") or d[1].startswith(nm + " "))):
                        params.add(nm)
    return frozenset(params)


def sibling_features(flows, root_path, body, blocks=None, _depth=0):
    """feature set of a region: {(crate-local callee, per-argument provenance, control params)}
    including the bodies of closures created in the region"""
    prog = flows.prog
    feats = set()
    for blk in body.normal_blocks():
        if blocks is not None and blk.i not in blocks:
            continue
        t = blk.term
        if t.k != "call" or not t.callee:
            continue
        tp = t.callee.target_path(prog)
        if not tp:
            continue
        if prog.items[tp]["kind"] == "closure":
            continue  # a direct call of a closure: its body is covered below, like a closure handed to an adaptor
        args = tuple(value_descriptor(flows, root_path, body.path, a) for a in t.args)
        ctrl = control_descriptor(flows, root_path, body.path, blk.i, within=blocks)
        forms = tuple(bool_form(flows.of(body), a) for a in t.args)
        feats.add((short(tp), args, ctrl, forms))
    if _depth < 4:
        for cb in closures_used_in(flows, body, blocks):
            feats |= sibling_features(flows, root_path, cb, None, _depth + 1)
    return feats


def bool_form(fl, op):
    """for a boolean argument: its POLARITY-normalised shape (`is_some(_)`, `!is_some(_)`, `_`, `!_`, `true`), with named
    boolean locals replaced by their definition and every other variable opaque.  Two sibling call sites that hand
    the same provenance to a flag parameter must also agree on whether it arrives negated."""
    import panic

    ty = op.place.ty if op.place is not None else (op.c or {}).get("ty")
    if ty != "bool":
        return ""

    def expand(d, depth=0):
        if not isinstance(d, tuple) or depth > 6:
            return d
        if d[0] == "place" and "." not in d[1]:
            ls = fl.b.locals_named(d[1])
            if ls and fl.b.local_ty(ls[0]) == "bool":
                v = value_of_named(fl, d[1])
                if v is not None:
                    return expand(panic.norm(v), depth + 1)
            return d
        if d[0] == "call":
            return ("call", d[1], tuple(expand(x, depth + 1) for x in d[2]))
        if d[0] == "unop":
            return ("unop", d[1], expand(d[2], depth + 1))
        if d[0] == "binop":
            return ("binop", d[1], expand(d[2], depth + 1), expand(d[3], depth + 1))
        return d

    d = expand(panic.norm(fl.describe(op, depth=8)))
    neg = False
    for _ in range(8):
        if not isinstance(d, tuple):
            break
        if d[0] == "unop" and d[1] == "Not":
            neg = not neg
            d = d[2]
            continue
        if d[0] == "call" and d[1].split("::")[-1] in ("is_none", "is_err", "is_empty") and d[2]:
            flip = {"is_none": "is_some", "is_err": "is_ok", "is_empty": "is_nonempty"}[d[1].split("::")[-1]]
            neg = not neg
            d = ("call", flip, d[2])
            continue
        if d[0] == "call" and d[1].split("::")[-1] in ("is_some", "is_ok") and d[2]:
            d = ("call", d[1].split("::")[-1], d[2])
        break
    if isinstance(d, tuple) and d[0] == "const":
        return d[1].replace("const ", "")
    core = panic.shape_str(d) if isinstance(d, tuple) else str(d)
    if isinstance(d, tuple) and d[0] == "call":
        core = "%s(%s)" % (d[1].split("::")[-1], ", ".join("_" for _ in d[2]))
    elif isinstance(d, tuple) and d[0] in ("place", "tmp"):
        core = "_"
    return ("!" if neg else "") + core


def fmt_feature(f):
    callee, args, ctrl = f[:3]
    forms = f[3] if len(f) > 3 else ()
    def d(i, x):
        p, c = x
        fm = forms[i] if i < len(forms) else ""
        return "{%s%s}%s" % (",".join(sorted(p)), (" via " + ",".join(sorted(s.split("::")[-1] for s in c))) if c else "", (" as " + fm) if fm else "")
    return "%s(%s)%s" % (callee.split("::")[-1], ", ".join(d(i, a) for i, a in enumerate(args)), (" under " + ",".join(sorted(ctrl))) if ctrl else "")


# ------------------------------------------------------------------ error kinds


def errorkind_sites(body):
    """[(bb, stmt, variant)] where an ErrorKind value is constructed"""
    out = []
    for s in body.stmts():
        if s.k == "assign" and s.rv.k == "aggr" and s.rv.j["ak"] == "adt" and s.rv.j["adt"].endswith("error::ErrorKind"):
            out.append((s.bb, s, s.rv.j["variant"]))
    return out


def result_ctor_sites(body, variant):
    """[(bb, stmt)] where `_0`-bound Result::Ok/Err (or Option::Some/None) is constructed"""
    out = []
    for s in body.stmts():
        if s.k == "assign" and s.rv.k == "aggr" and s.rv.j["ak"] == "adt" and s.rv.j["variant"] == variant and s.rv.j["adt"] in ("std::result::Result", "std::option::Option"):
            out.append((s.bb, s))
    return out


# ------------------------------------------------------------------ atom-consistent path feasibility


def atom_key(fl, bb):
    """(key, true_succ, false_succ) for a boolean switch whose test is a stable, pure predicate"""
    from panic import norm

    at = fl.atom(bb)
    if not at or at["ty"] != "bool":
        return None
    test = norm(at["test"])
    neg = False
    while isinstance(test, tuple) and test[0] == "unop" and test[1] == "Not":
        neg = not neg
        test = test[2]
    f_succ = dict(at["targets"]).get(0)
    t_succ = at["otherwise"]
    if neg:
        f_succ, t_succ = t_succ, f_succ
    ok = False
    if isinstance(test, tuple):
        if test[0] == "place" and ".specs." in test[1]:
            ok = True
        elif test[0] == "call" and test[1].split("::")[-1] in ("contains_key", "eq", "has_node", "is_nan"):
            ok = True
    if not ok:
        return None
    return (fmt_desc(test), t_succ, f_succ)


def feasible_states(body, fl, kills=None, max_states=20000, keep=None):
    """forward exploration of (block, known atom values) keeping only atom-consistent branches.
    `kills(bb)` -> iterable of substrings; facts whose key contains one of them are dropped after bb.
    returns {bb: set of frozenset((key, bool))} of states at block ENTRY."""
    start = (0, frozenset())
    seen = {start}
    work = [start]
    at_entry = defaultdict(set)
    at_entry[0].add(frozenset())
    n = 0
    while work:
        n += 1
        if n > max_states:
            return None
        bb, facts = work.pop()
        fd = dict(facts)
        out_facts = facts
        if kills is not None:
            ks = list(kills(bb))
            if ks:
                out_facts = frozenset((k, v) for (k, v) in facts if not any(x in k for x in ks))
                fd = dict(out_facts)
        ak = atom_key(fl, bb) if body.blocks[bb].term.k == "switch" else None
        for s in body.succ(bb):
            nf = out_facts
            if ak is not None:
                key, t_succ, f_succ = ak
                if t_succ != f_succ and (keep is None or keep(key)):
                    val = True if s == t_succ else (False if s == f_succ else None)
                    if val is not None:
                        if key in fd and fd[key] != val:
                            continue  # infeasible: contradicts what an earlier test established
                        nf = out_facts | {(key, val)}
            st = (s, nf)
            if st not in seen:
                seen.add(st)
                at_entry[s].add(nf)
                work.append(st)
    return at_entry


# ------------------------------------------------------------------ value-chain provenance

PASS_THROUGH = {"clone", "cloned", "copied", "deref", "deref_mut", "as_ref", "borrow", "unwrap", "expect", "get", "get_mut", "iter", "into_iter",
                "collect", "to_owned", "into", "unwrap_or", "unwrap_or_default", "as_slice", "to_vec", "by_ref"}


def producers(flows, body, operand, depth=0, seen=None):
    """callees that PRODUCE the value in `operand`, following only value-preserving links (moves,
    re-borrows, clone/deref/unwrap/get(receiver)/iter/collect on the RECEIVER, parameters to the callers'
    arguments, closure captures to the captured operand).  Lookup keys and other arguments are not
    followed.  Returns a set of callee short names; 'param:<fn>' for a public/unknown origin."""
    prog = flows.prog
    seen = seen if seen is not None else set()
    fl = flows.of(body)
    out = set()
    if operand is None or operand.place is None or depth > 30:
        return {"?"}
    pl = operand.place
    key = (body.path, pl.local, tuple(str(e) for e in pl.proj))
    if key in seen:
        return set()
    seen.add(key)
    # closure upvar
    if body.kind == "closure" and pl.local == 1:
        up = next((e["f"][1:] for e in pl.proj if isinstance(e, dict) and "f" in e and e["f"].startswith("^")), None)
        if up is not None:
            caps = [c["name"] for c in body.item.get("captures", [])]
            for (pp, st) in flows.closure_sites(body.path):
                for ci, cn in enumerate(caps):
                    if cn == up and ci < len(st.rv.ops):
                        out |= producers(flows, prog.bodies[pp], st.rv.ops[ci], depth + 1, seen)
            return out or {"?"}
    l = pl.local
    # the first field selected on the way (a value carried in a struct / tuple is followed into the aggregate
    # that built the struct, also across a call: `helper(Ctx { preds, succs })` ... `ctx.preds`)
    ffield = next((e for e in pl.proj if isinstance(e, dict) and "f" in e and not str(e["f"]).startswith("^")), None)
    if 1 <= l <= body.arg_count:
        callers = flows.callers().get(body.path, [])
        if body.kind == "closure" or not callers:
            return {"param:" + body.short}
        from mir import Operand

        for (cp, cbb) in callers:
            cb = prog.bodies[cp]
            t = cb.blocks[cbb].term
            if l - 1 < len(t.args):
                a = t.args[l - 1]
                if ffield is not None and a.place is not None:
                    a = Operand({"k": "copy", "place": {"l": a.place.local, "p": list(a.place.proj) + [ffield], "ty": ffield.get("ty", "")}})
                out |= producers(flows, cb, a, depth + 1, seen)
        return out
    defs = body.assigns_to(l)
    if not defs:
        return {"?"}
    for (dbb, d) in defs:
        rv0 = getattr(d, "rv", None)
        if ffield is not None and rv0 is not None and rv0.k == "aggr" and rv0.j.get("ak") in ("adt", "tuple") and not d.lhs.proj:
            idx = ffield.get("i")
            names = rv0.j.get("fields") or []
            if str(ffield["f"]) in names:
                idx = names.index(str(ffield["f"]))
            if isinstance(idx, int) and idx < len(rv0.ops):
                out |= producers(flows, body, rv0.ops[idx], depth + 1, seen)
                continue
        if getattr(d, "k", None) == "call":
            nm = d.callee.short if d.callee else "<indirect>"
            if nm.split("::")[-1] in PASS_THROUGH and d.args:
                out |= producers(flows, body, d.args[0], depth + 1, seen)
            else:
                out.add(nm)
        else:
            rv = d.rv
            # a field selected on the value being traced stays selected on what the value is a copy / borrow of
            carry = [ffield] if (ffield is not None and not d.lhs.proj) else []
            if rv.k in ("use", "cast") and rv.ops and rv.ops[0].place is not None:
                nxt = rv.ops[0]
                if carry:
                    from mir import Operand

                    nxt = Operand({"k": "copy", "place": {"l": nxt.place.local, "p": list(nxt.place.proj) + carry, "ty": carry[0].get("ty", "")}})
                out |= producers(flows, body, nxt, depth + 1, seen)
            elif rv.k in ("ref", "copyderef") and rv.place is not None:
                from flow import _LocalOperand

                op = _LocalOperand(rv.place.local, body.local_ty(rv.place.local))
                op.place.proj = [e for e in rv.place.proj if e != "*"] + carry
                out |= producers(flows, body, op, depth + 1, seen)
            else:
                out.add("<%s>" % rv.k)
    return out


# ---------------------------------------------------------------------------------------------
# canonical "is K a key of M" facts: the same test is written as contains_key(M, K), as
# M.get(K).is_some() / is_none(), as `match M.get(K) { Some(..) / None }` (also behind
# copied()/cloned()/map()/as_ref()), or as `if let Some(..) = M.get(K)`.  Rules compare the canonical
# form, so replacing one idiom by another is not reported.
OPTION_KEEPERS = ("copied", "cloned", "map", "as_ref", "as_deref", "as_mut", "inspect")
LOOKUP_CALLS = ("get", "get_mut", "get_key_value")


def value_of_named(fl, name_or_tmp):
    """description of the single definition of a named local / temporary, or None"""
    b = fl.b
    if isinstance(name_or_tmp, int):
        ls = [name_or_tmp]
    else:
        if "." in name_or_tmp or "[" in name_or_tmp or "*" in name_or_tmp:
            return None
        ls = b.locals_named(name_or_tmp)
    if len(ls) != 1 or ls[0] <= b.arg_count:
        return None
    df = b.assigns_to(ls[0])
    if len(df) != 1:
        return None
    return fl.describe_def(df[0][1], depth=10)


def _peel_lookup(fl, d, depth=6):
    """d describes an Option; -> (map_desc, key_desc) if it is [keepers]*(M.get(K))"""
    while isinstance(d, tuple) and depth > 0:
        depth -= 1
        if d[0] == "place":
            v = value_of_named(fl, d[1])
            if v is None:
                return None
            d = v
            continue
        if d[0] == "tmp":
            v = value_of_named(fl, d[1])
            if v is None:
                return None
            d = v
            continue
        if d[0] != "call":
            return None
        last = d[1].split("::")[-1]
        if last in OPTION_KEEPERS and d[2]:
            d = d[2][0]
            continue
        if last in LOOKUP_CALLS and len(d[2]) >= 2 and ("HashMap" in d[1] or "BTreeMap" in d[1] or "IntMap" in d[1] or "HashSet" in d[1]):
            return (d[2][0], d[2][1])
        return None
    return None


def canon_exists(fl, test, val, sw=None):
    """(map_desc, key_desc, present) when (test, val) states whether a key is in a map, else None"""
    if not isinstance(test, tuple):
        return None
    if test[0] == "call":
        last = test[1].split("::")[-1]
        if last == "contains_key" and len(test[2]) == 2 and isinstance(val, bool):
            return (test[2][0], test[2][1], val)
        if last in ("is_some", "is_none") and test[2] and isinstance(val, bool):
            r = _peel_lookup(fl, test[2][0])
            if r:
                return (r[0], r[1], val if last == "is_some" else not val)
        return None
    if test[0] == "discr" and len(test) >= 3 and str(test[2]).lstrip("&").startswith("std::option::Option<"):
        r = _peel_lookup(fl, ("place", test[1]))
        if r is None and test[1].startswith("_") and test[1][1:].isdigit():
            r = _peel_lookup(fl, ("tmp", int(test[1][1:])))
        if r is None and sw is not None and not isinstance(sw, tuple):
            # the scrutinee is an unnamed temporary (`if let Some(i) = m.get(k).copied()`): go through the statement
            # that reads its discriminant
            dd = fl.atom_def(sw)
            rv_ = getattr(dd, "rv", None) if dd is not None else None
            if rv_ is not None and rv_.k == "discr" and rv_.place is not None and not rv_.place.proj:
                r = _peel_lookup(fl, ("tmp", rv_.place.local))
        if r is None:
            return None
        if isinstance(val, tuple) and len(val) == 1:
            return (r[0], r[1], val[0] == 1)
        if val == "otherwise" and sw is not None and not isinstance(sw, tuple):
            at = fl.atom(sw)
            listed = {v for (v, t) in at["targets"]}
            rest = {0, 1} - listed
            if len(rest) == 1:
                return (r[0], r[1], rest.pop() == 1)
    return None


# ------------------------------------------------------------------ unwrapped crate calls and the ways they can fail


def callee_error_kinds(prog, path, _seen=None, _depth=0):
    """ErrorKind variants constructed in a crate function, its closures and the Result-returning crate functions
    it calls (an over-approximation of the kinds it can return)"""
    seen = _seen if _seen is not None else set()
    if path in seen or _depth > 6:
        return set()
    seen.add(path)
    b = prog.bodies[path]
    out = set()
    for body in [b] + list(prog.closures_of(path)):
        out |= {v for (_, _, v) in errorkind_sites(body)}
        for t in body.calls():
            tp = t.callee.target_path(prog) if t.callee else None
            if tp and prog.items[tp]["kind"] != "closure":
                rt = prog.bodies[tp].local_ty(0)
                if rt.startswith("std::result::Result<") and "error::Error" in rt:
                    out |= callee_error_kinds(prog, tp, seen, _depth + 1)
    return out


def unwrapped_crate_results(prog, flows):
    """[(root function short name, callee short name, kinds, site)] for every unwrap/expect whose operand is the
    Result<_, Error> of a crate function"""
    import panic

    out = []
    for p in sorted(prog.bodies):
        b = prog.bodies[p]
        fl = flows.of(b)
        for s in panic.enumerate_sites(b):
            if s.kind != "unwrap" or s.operand is None:
                continue
            oc = panic.origin_call(fl, s.operand)
            if oc is None or not oc.callee:
                continue
            tp = oc.callee.target_path(prog)
            if not tp or prog.items[tp]["kind"] == "closure":
                continue
            rt = prog.bodies[tp].local_ty(0)
            if not (rt.startswith("std::result::Result<") and "error::Error" in rt):
                continue
            out.append((panic.root_fn_short(b), short(tp), sorted(callee_error_kinds(prog, tp)), s))
    return out


def check_unwrapped_callee_kinds(ctx, prog, flows, rid, prefixes, consequence):
    """An `.unwrap()` on the Result of a crate function was reviewed against the error kinds that function could
    produce (rules/unwrap_callee_kinds.json, one line per caller/callee pair).  If the callee (or something it calls)
    gains a NEW error kind, every such unwrap is a new way to panic until it is looked at again."""
    import json
    import os

    ctx.rule(rid, "a crate call whose Result is unwrapped has gained no error kind since that unwrap was reviewed")
    path = os.path.join(os.path.dirname(os.path.abspath(__file__)), "..", "rules", "unwrap_callee_kinds.json")
    try:
        table = {e["key"]: e for e in json.load(open(path))["entries"]}
    except (OSError, ValueError, KeyError):
        ctx.anchor_lost(rid, "rules/unwrap_callee_kinds.json")
        return 0
    n = 0
    new_keys = []
    for (root, callee, kinds, s) in unwrapped_crate_results(prog, flows):
        if prefixes is not None and not any(root.startswith(x) for x in prefixes):
            continue
        key = "%s|%s" % (root, callee)
        e = table.get(key)
        if e is None:
            new_keys.append(key)
            continue
        n += 1
        extra = sorted(set(kinds) - set(e["kinds"]))
        ctx.require(not extra, rid, key, "%s unwraps %s, which can fail with %s as when it was reviewed" % (root.split("::")[-1], callee.split("::")[-1], kinds),
                    "%s unwraps the result of %s, which can now also fail with %s (reviewed for %s only): " % (root, callee, extra, e["kinds"]) + consequence, s.site())
    ctx.counters["unwrapped_crate_calls_not_in_table"] = sorted(set(new_keys))
    return n


# ------------------------------------------------------------------ a guard as a function of a count


def eval_over_count(fl, d, n, is_count, depth=0):
    """value of a description tree when the count expression (`is_count(desc)` is true for it) equals n; handles the
    integer / float arithmetic and comparisons a guard on a node count is written with, named locals are replaced
    by their definitions.  Returns an int / float / bool, or None when the tree contains anything else."""
    import panic
    import re

    if depth > 12 or not isinstance(d, tuple):
        return None
    if is_count(d):
        return n
    k = d[0]
    if k == "const":
        m = re.match(r"const (-?\d+)_[iu](?:8|16|32|64|128|size)$", d[1])
        if m:
            return int(m.group(1))
        m = re.match(r"const (-?\d+(?:\.\d+)?(?:e-?\d+)?)_?f(?:32|64)$", d[1])
        if m:
            return float(m.group(1))
        if d[1] in ("const true", "const false"):
            return d[1].endswith("true")
        return None
    if k in ("place", "tmp") and (k == "tmp" or "." not in d[1]):
        v = value_of_named(fl, d[1])
        if v is None:
            return None
        return eval_over_count(fl, panic.norm(v), n, is_count, depth + 1)
    if k == "unop":
        x = eval_over_count(fl, d[2], n, is_count, depth + 1)
        if x is None:
            return None
        if d[1] == "Not" and isinstance(x, bool):
            return not x
        if d[1] == "Neg":
            return -x
        return None
    if k == "binop":
        x = eval_over_count(fl, d[2], n, is_count, depth + 1)
        y = eval_over_count(fl, d[3], n, is_count, depth + 1)
        if x is None or y is None:
            return None
        op = d[1].replace("WithOverflow", "").replace("Unchecked", "")
        try:
            return {"Add": lambda: x + y, "Sub": lambda: x - y, "Mul": lambda: x * y, "Lt": lambda: x < y, "Le": lambda: x <= y, "Gt": lambda: x > y, "Ge": lambda: x >= y, "Eq": lambda: x == y, "Ne": lambda: x != y, "BitAnd": lambda: x and y, "BitOr": lambda: x or y}[op]()
        except KeyError:
            return None
    if k == "call":
        nm = d[1].split("::")[-1]
        args = [eval_over_count(fl, a, n, is_count, depth + 1) for a in d[2]]
        if nm in ("saturating_sub",) and len(args) == 2 and None not in args:
            return max(args[0] - args[1], 0)
        if nm in ("saturating_add", "wrapping_add") and len(args) == 2 and None not in args:
            return args[0] + args[1]
        if nm in ("checked_sub",):
            return None
        if nm in ("max", "min") and len(args) == 2 and None not in args:
            return max(args) if nm == "max" else min(args)
        if nm in ("eq", "ne", "lt", "le", "gt", "ge") and len(args) == 2 and None not in args:
            return {"eq": args[0] == args[1], "ne": args[0] != args[1], "lt": args[0] < args[1], "le": args[0] <= args[1], "gt": args[0] > args[1], "ge": args[0] >= args[1]}[nm]
        if nm in ("is_empty",) and d[2] and is_count(("call", "len", d[2])):
            return n == 0
        return None
    if k == "cast" and len(d) > 1:
        return eval_over_count(fl, d[1], n, is_count, depth + 1)
    return None


# ------------------------------------------------------------------ formulas: expression identity on a grid


def eval_expr(fl, d, leaf, depth=0):
    """numeric value of a description tree under an assignment of its leaves: `leaf(desc)` returns a number for the
    places / calls it knows and None otherwise.  Arithmetic (+ - * /), casts (transparent in descriptions), integer and
    float literals, and named locals (replaced by their definitions).  None if anything else occurs.
    Used to compare the expression a function computes with the expression the definition gives, at a grid of
    points (two polynomials / rational functions of low degree that agree on enough points are the same): the tree is
    evaluated, graphrs is not run."""
    import panic
    import re

    if depth > 14 or not isinstance(d, tuple):
        return None
    v = leaf(d)
    if v is not None:
        return v
    k = d[0]
    if k == "const":
        m = re.match(r"const (-?\d+)_[iu](?:8|16|32|64|128|size)$", d[1])
        if m:
            return float(m.group(1))
        m = re.match(r"const (-?\d+(?:\.\d+)?(?:[eE]-?\d+)?)_?f(?:32|64)$", d[1])
        if m:
            return float(m.group(1))
        return None
    if k in ("place", "tmp") and (k == "tmp" or "." not in d[1]):
        vv = value_of_named(fl, d[1])
        if vv is None:
            return None
        return eval_expr(fl, panic.norm(vv), leaf, depth + 1)
    if k == "unop" and d[1] == "Neg":
        x = eval_expr(fl, d[2], leaf, depth + 1)
        return None if x is None else -x
    if k == "binop":
        x = eval_expr(fl, d[2], leaf, depth + 1)
        y = eval_expr(fl, d[3], leaf, depth + 1)
        if x is None or y is None:
            return None
        op = d[1].replace("WithOverflow", "").replace("Unchecked", "")
        try:
            if op == "Add":
                return x + y
            if op == "Sub":
                return x - y
            if op == "Mul":
                return x * y
            if op == "Div":
                return x / y if y != 0 else None
        except (OverflowError, ZeroDivisionError):
            return None
        return None
    if k == "call":
        nm = d[1].split("::")[-1]
        args = [eval_expr(fl, a, leaf, depth + 1) for a in d[2]]
        if None in args:
            return None
        if nm in ("add", "sub", "mul", "div") and len(args) == 2:
            return {"add": args[0] + args[1], "sub": args[0] - args[1], "mul": args[0] * args[1], "div": (args[0] / args[1]) if args[1] else None}[nm]
        if nm == "powi" and len(args) == 2:
            return args[0] ** int(args[1])
        if nm == "powf" and len(args) == 2:
            return args[0] ** args[1]
        if nm in ("from", "into") and len(args) == 1:
            return args[0]
        return None
    return None


def same_on_grid(fl, d, leaf_for, expected, grid, tol=1e-9):
    """compare eval_expr(d) with expected(point) at every grid point; returns (True, None) | (False, point, got, want)
    | (None, why) when the tree cannot be evaluated"""
    for pt in grid:
        got = eval_expr(fl, d, leaf_for(pt))
        if got is None:
            return (None, "the expression is not plain arithmetic over the expected quantities")
        want = expected(pt)
        if abs(got - want) > tol * max(1.0, abs(want)):
            return (False, pt, got, want)
    return (True, None)


# ---------------------------------------------------------------------------------------------------------------
# formula identity: the value a function returns, as arithmetic over named quantities, compared with the closed form
# of the definition at a grid of points.  Expression trees are evaluated -- definitions are followed through copies,
# casts and (by REACHING DEFINITIONS) through variables that are assigned more than once; no path of graphrs is run and
# no branch is decided: every definition that can reach the use is evaluated and reported with its own value.

def reaching_defs(b, local, bb, idx):
    """definitions (assignment statements or call terminators) of the whole local that can reach position (bb, idx)
    -- idx is the statement index of the use, len(stmts) for the terminator"""
    out, seen_blocks, seen_defs = [], set(), set()

    def scan(bi, upto):
        blk = b.blocks[bi]
        if upto > len(blk.stmts) and blk.term.k == "call" and blk.term.dest is not None and blk.term.dest.local == local and not blk.term.dest.proj:
            return blk.term
        for j in range(min(upto, len(blk.stmts)) - 1, -1, -1):
            s = blk.stmts[j]
            if s.k == "assign" and s.lhs.local == local and not s.lhs.proj:
                return s
        return None

    work = [(bb, idx)]
    while work:
        bi, upto = work.pop()
        d = scan(bi, upto)
        if d is not None:
            if id(d) not in seen_defs:
                seen_defs.add(id(d))
                out.append(d)
            continue
        for p in b.pred(bi):
            if p not in seen_blocks:
                seen_blocks.add(p)
                work.append((p, 10 ** 9))
    return out


class FormulaEval:
    """evaluates operands / definitions of one body numerically under a leaf assignment"""

    THROUGH = ("from", "into", "clone", "copied", "cloned", "deref", "borrow", "as_ref", "to_owned", "unwrap_or_default")

    def __init__(self, fl):
        import panic

        self.fl = fl
        self.b = fl.b
        self.norm = panic.norm
        self.term_leaf = None  # optional: term_leaf(call terminator, point leaf) -> value | None, consulted before the description leaf
        self.pos = {}
        for blk in self.b.normal_blocks():
            for j, s in enumerate(blk.stmts):
                self.pos[id(s)] = (blk.i, j)
            self.pos[id(blk.term)] = (blk.i, len(blk.stmts))

    def defs_at(self, local, at):
        """the definitions of `local` that reach the position of statement / terminator `at`"""
        ds = self.b.assigns_to(local)
        whole = [d for (_bb, d) in ds if getattr(d, "k", None) == "call" or not d.lhs.proj]
        if len(whole) <= 1 or at is None or id(at) not in self.pos:
            return whole
        bb, idx = self.pos[id(at)]
        return reaching_defs(self.b, local, bb, idx)

    def operand(self, op, leaf, at=None, depth=0):
        """-> list of values (one per reaching definition), or None when some definition is not arithmetic"""
        if depth > 24:
            return None
        fl = self.fl
        if op.place is None:
            v = eval_expr(fl, self.norm(fl.describe(op)), leaf)
            return None if v is None else [v]
        d = self.norm(fl.describe(op, depth=6))
        v = leaf(d)
        if v is not None:
            return [v]
        p = op.place
        if p.proj:
            # first component of a checked-arithmetic pair
            if len(p.proj) == 1 and isinstance(p.proj[0], dict) and str(p.proj[0].get("f")) == "0":
                ds = self.defs_at(p.local, at)
                if len(ds) == 1 and getattr(ds[0], "rv", None) is not None and ds[0].rv.k == "binop" and ds[0].rv.j["op"].endswith("WithOverflow"):
                    return self.definition(ds[0], leaf, depth + 1)
            return None
        ds = self.defs_at(p.local, at)
        if not ds:
            return None
        out = []
        for d_ in ds:
            vs = self.definition(d_, leaf, depth + 1)
            if vs is None:
                return None
            out += vs
        return out

    def definition(self, d, leaf, depth=0):
        fl = self.fl
        if getattr(d, "k", None) == "call":
            if self.term_leaf is not None:
                v = self.term_leaf(d, leaf)
                if v is not None:
                    return [v]
            dd = self.norm(fl.describe_def(d, depth=6))
            v = leaf(dd)
            if v is not None:
                return [v]
            nm = d.callee.short.split("::")[-1] if d.callee else ""
            if nm in self.THROUGH and len(d.args) == 1:
                return self.operand(d.args[0], leaf, d, depth + 1)
            args = [self.operand(a, leaf, d, depth + 1) for a in d.args]
            if any(a is None for a in args):
                return None
            import itertools

            res = []
            for combo in itertools.product(*args):
                r = self._apply_call(nm, combo)
                if r is None:
                    return None
                res.append(r)
            return res
        rv = d.rv
        if rv.k in ("use", "cast"):
            return self.operand(rv.ops[0], leaf, d, depth + 1)
        if rv.k == "unop" and rv.j["op"] == "Neg":
            xs = self.operand(rv.ops[0], leaf, d, depth + 1)
            return None if xs is None else [-x for x in xs]
        if rv.k == "binop":
            xs = self.operand(rv.ops[0], leaf, d, depth + 1)
            ys = self.operand(rv.ops[1], leaf, d, depth + 1)
            if xs is None or ys is None:
                return None
            op = rv.j["op"].replace("WithOverflow", "").replace("Unchecked", "")
            res = []
            for x in xs:
                for y in ys:
                    r = self._apply_call({"Add": "add", "Sub": "sub", "Mul": "mul", "Div": "div"}.get(op, "?"), (x, y))
                    if r is None:
                        return None
                    res.append(r)
            return res
        return None

    @staticmethod
    def _apply_call(nm, a):
        try:
            if nm == "add" and len(a) == 2:
                return a[0] + a[1]
            if nm == "sub" and len(a) == 2:
                return a[0] - a[1]
            if nm == "mul" and len(a) == 2:
                return a[0] * a[1]
            if nm == "div" and len(a) == 2:
                return a[0] / a[1] if a[1] != 0 else None
            if nm == "powi" and len(a) == 2:
                return a[0] ** int(a[1])
            if nm == "powf" and len(a) == 2:
                return a[0] ** a[1]
            if nm == "sqrt" and len(a) == 1:
                return a[0] ** 0.5 if a[0] >= 0 else None
            if nm == "saturating_sub" and len(a) == 2:
                return max(a[0] - a[1], 0.0)
            if nm == "recip" and len(a) == 1:
                return 1.0 / a[0] if a[0] else None
        except (OverflowError, ZeroDivisionError, ValueError):
            return None
        return None


def value_forms_on_grid(fl, op, at, leaf_for, grid):
    """the values an operand can have (one per reaching definition), each as the tuple of its values over the grid;
    None when some reaching definition is not arithmetic over the leaves"""
    fe = FormulaEval(fl)
    cols = []
    for pt in grid:
        vs = fe.operand(op, leaf_for(pt), at)
        if vs is None:
            return None
        cols.append(vs)
    n = len(cols[0])
    if any(len(c) != n for c in cols):
        return None
    return [tuple(c[i] for c in cols) for i in range(n)]


def matches_form(vec, expected, grid, tol=1e-9):
    return all(abs(v - expected(pt)) <= tol * max(1.0, abs(expected(pt))) for v, pt in zip(vec, grid))


def forms_of_def(fl, d, leaf_for, grid, fe=None):
    """like value_forms_on_grid, for the value a definition (statement / call terminator) produces"""
    fe = fe or FormulaEval(fl)
    cols = []
    for pt in grid:
        vs = fe.definition(d, leaf_for(pt))
        if vs is None:
            return None
        cols.append(vs)
    n = len(cols[0])
    if any(len(c) != n for c in cols):
        return None
    return [tuple(c[i] for c in cols) for i in range(n)]


def classify_forms(forms, allowed, grid, zero_ok=True):
    """-> (names of the allowed forms that occur, list of forms that match none)"""
    seen, bad = set(), []
    for f in forms:
        hit = None
        for nm, fn in allowed.items():
            if matches_form(f, fn, grid):
                hit = nm
                break
        if hit is None and zero_ok and all(x == 0 for x in f):
            hit = "0"
        if hit is None:
            bad.append(f)
        else:
            seen.add(hit)
    return seen, bad


def mapped_closure_of(fl, term, depth=8):
    """the closure handed to the `map` (or filter_map / flat_map) adaptor that feeds this consumer call (sum, count ..)"""
    op = term.args[0] if term.args else None
    for _ in range(depth):
        if op is None or op.place is None:
            return None
        d = fl.single_def(op.place.local)
        if d is None:
            return None
        if getattr(d, "k", None) == "call":
            nm = d.callee.short.split("::")[-1] if d.callee else ""
            if nm in ("map", "filter_map", "flat_map") and len(d.args) >= 2 and d.args[1].place is not None:
                for c in fl.copies_of(d.args[1].place.local) | {d.args[1].place.local}:
                    if c in fl.closure_locals:
                        return fl.closure_locals[c]
                return None
            op = d.args[0] if d.args else None
        else:
            rv = d.rv
            if rv.k in ("use", "cast") and rv.ops:
                op = rv.ops[0]
            elif rv.k in ("ref", "copyderef") and rv.place is not None and all(e == "*" for e in rv.place.proj):
                from flow import _LocalOperand

                op = _LocalOperand(rv.place.local, fl.b.local_ty(rv.place.local))
            else:
                return None
    return None


def predicate_true_paths(fl, body):
    """For a bool-returning body (a filter closure): the ways it can return true, each as a frozenset of canonical
    literals (rel, polarity, frozenset(operand shapes)).  `a == b` / `!(a != b)` / `a.eq(b)` are ("eq", True, {a, b});
    the literal that IS the returned value on a path counts with polarity True.  Returns None if some true path is
    not a conjunction of equality / membership literals."""
    import panic
    from flow import fmt_desc
    from props.c01 import controlling_atoms

    def lit(te, v):
        te = panic.norm(te)
        neg = False
        while isinstance(te, tuple) and te[0] == "unop" and te[1] == "Not":
            neg = not neg
            te = te[2]
        if not isinstance(te, tuple):
            return None
        if te[0] == "call" and te[1].split("::")[-1] in ("eq", "ne", "contains", "contains_key") and len(te[2]) >= 2:
            rel = te[1].split("::")[-1]
            ops = frozenset(fmt_desc(panic.shape(panic.norm(x))) for x in te[2][:2])
        elif te[0] == "binop" and te[1] in ("Eq", "Ne"):
            rel = te[1].lower()
            ops = frozenset(fmt_desc(panic.shape(panic.norm(x))) for x in te[2:4])
        else:
            return None
        pol = bool(v) != neg
        if rel == "ne":
            rel, pol = "eq", not pol
        return (rel, pol, ops)

    out = []
    for (bb, d) in body.assigns_to(0):
        rv = getattr(d, "rv", None)
        conds = set()
        bad = False
        for (te, v, a) in controlling_atoms(fl, bb):
            if not isinstance(v, bool):
                continue
            l_ = lit(te, v)
            if l_ is None:
                bad = True
            else:
                conds.add(l_)
        if rv is not None and rv.k == "use" and rv.ops and rv.ops[0].is_const():
            if rv.ops[0].const_int() == 0:
                continue  # returns false here
        else:
            dd = panic.norm(fl.describe_def(d, depth=8))
            l_ = lit(dd, True)
            if l_ is None:
                bad = True
            else:
                conds.add(l_)
        if bad:
            return None
        out.append(frozenset(conds))
    return out


def path_conditions(fl, body, start, target, region, lit, max_paths=4000):
    """the ways block `target` is reached from block `start` inside `region` (a set of blocks), each as the frozenset of
    the literals lit(test, value) (non-None ones) of the bool switches passed on the way.  Cycles are cut (a block is
    visited once per path).  Returns None when there are too many paths."""
    import panic

    out = set()
    n = 0
    stack = [(start, frozenset(), frozenset([start]))]
    while stack:
        x, conds, seen = stack.pop()
        n += 1
        if n > max_paths * 20:
            return None
        if x == target:
            out.add(conds)
            if len(out) > max_paths:
                return None
            continue
        blk = body.blocks[x]
        succs = [y for y in body.succ(x) if y in region or y == target]
        at = fl.atom(x) if blk.term.k == "switch" else None
        for y in succs:
            if y in seen and y != target:
                continue
            c2 = conds
            if at and at.get("ty") != "bool":
                # a match on an enum (Option<Ordering> of partial_cmp ..): the caller decides whether it matters
                try:
                    l_ = lit(panic.norm(at["test"]), None, x)
                except TypeError:
                    l_ = None
                if l_ is not None:
                    c2 = conds | {l_}
            if at and at.get("ty") == "bool":
                val = (y == at["otherwise"])
                try:
                    from props.c01 import through_names as _tn

                    te_ = _tn(fl, panic.norm(at["test"]))
                except Exception:
                    te_ = panic.norm(at["test"])
                try:
                    l_ = lit(te_, val, x)
                except TypeError:
                    l_ = lit(te_, val)
                if l_ is not None:
                    c2 = conds | {l_}
            stack.append((y, c2, seen | {y}))
    return out
