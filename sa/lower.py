"""Lowering of std adaptors that take a closure into explicit control flow (MIR-fact level, after
sa/inline.py's helper inlining, before `mir.Program` is built).

`o.map(|x| f(x))` and `match o { Some(x) => Some(f(x)), None => None }`, `r.map(|_| g)` and
`match r { Ok(_) => Ok(g), Err(e) => Err(e) }`, `it.for_each(|x| ..)` and `for x in it { .. }`,
`seed.unwrap_or_else(|| entropy())` and `match seed { Some(s) => s, None => entropy() }` are the
same program; maintainers move between the two forms freely.  The rules are written over control
flow (which edge guards a call, which loop contains a push, which arm builds an error), so the
combinator forms are rewritten to the control-flow forms here: the call terminator is replaced by
a discriminant switch (or a loop around Iterator::next) and the closure body is spliced into the
arm, with accesses to the closure environment rewritten to the captured places of the host.

Lowered (when the closure argument is a closure value created in the same body, a non-capturing
closure constant, or a function item): Option::{map, and_then, map_or, map_or_else, unwrap_or_else,
ok_or_else, is_some_and, or_else}, Result::{map, map_err, and_then, unwrap_or_else},
Iterator::{for_each, try_for_each}.  Lazy iterator adaptors (map/filter/collect chains, rayon) are
NOT lowered.  A closure whose only use was a lowered call is removed from the program; one that is
also used elsewhere stays as a body of its own.
"""
import copy

from inline import _closures_under, _walk, _is_place

OPT = "std::option::Option"
RES = "std::result::Result"

ADAPTORS = {
    "std::option::Option::map": ("opt", "map"),
    "std::option::Option::and_then": ("opt", "and_then"),
    "std::option::Option::map_or": ("opt", "map_or"),
    "std::option::Option::map_or_else": ("opt", "map_or_else"),
    "std::option::Option::unwrap_or_else": ("opt", "unwrap_or_else"),
    "std::option::Option::ok_or_else": ("opt", "ok_or_else"),
    "std::option::Option::is_some_and": ("opt", "is_some_and"),
    "std::option::Option::or_else": ("opt", "or_else"),
    "std::result::Result::map": ("res", "map"),
    "std::result::Result::map_err": ("res", "map_err"),
    "std::result::Result::and_then": ("res", "and_then"),
    "std::result::Result::unwrap_or_else": ("res", "unwrap_or_else"),
    "std::iter::Iterator::for_each": ("iter", "for_each"),
    "std::iter::Iterator::try_for_each": ("iter", "try_for_each"),
}


DIRECT_CALLS = ("std::ops::Fn::call", "std::ops::FnMut::call_mut", "std::ops::FnOnce::call_once")


def _short_fn(fn):
    """`std::option::Option::<T>::map` -> `std::option::Option::map`"""
    out = []
    depth = 0
    for ch in fn:
        if ch == "<":
            depth += 1
            continue
        if ch == ">":
            depth -= 1
            continue
        if depth == 0:
            out.append(ch)
    s = "".join(out)
    while "::::" in s:
        s = s.replace("::::", "::")
    return s


def split_generic_args(ty):
    """`std::result::Result<A<B, C>, (D, E)>` -> ['A<B, C>', '(D, E)']"""
    i = ty.find("<")
    if i < 0 or not ty.endswith(">"):
        return []
    inner = ty[i + 1:-1]
    out = []
    depth = 0
    cur = ""
    for ch in inner:
        if ch in "<([":
            depth += 1
        elif ch in ">)]":
            depth -= 1
        if ch == "," and depth == 0:
            out.append(cur.strip())
            cur = ""
        else:
            cur += ch
    if cur.strip():
        out.append(cur.strip())
    return out


class Lowering:
    def __init__(self, inliner):
        self.inl = inliner
        self.items = inliner.items
        self.facts = inliner.facts
        self.by_parent = inliner.by_parent
        self.lowered = []
        self.closure_uses = {}
        # "{closure@file:l:c: l:c}" -> path of that closure
        self.closure_by_ty = {}
        for p_, it_ in self.items.items():
            if it_.get("kind") == "closure" and "mir" in it_ and it_["mir"]["arg_count"] >= 1:
                ty_ = str(it_["mir"]["locals"][1]["ty"])
                k_ = ty_.find("{closure@")
                if k_ >= 0 and not it_.get("inlined_from"):
                    self.closure_by_ty.setdefault(ty_[k_:], p_)

    # ------------------------------------------------------------------ small builders
    @staticmethod
    def P(l, ty, proj=None):
        return {"l": l, "p": proj or [], "ty": ty}

    def new_local(self, hm, ty, name=None):
        i = len(hm["locals"])
        hm["locals"].append({"i": i, "ty": ty, "name": name, "mut": True, "lowered": True})
        return i

    def new_block(self, hm, stmts, term):
        i = len(hm["blocks"])
        hm["blocks"].append({"i": i, "cleanup": False, "stmts": stmts, "term": term, "lowered": True})
        return i

    def assign(self, lhs, rv, span, at):
        return {"k": "assign", "lhs": lhs, "rv": rv, "span": span, "inlined_at": at, "lowered": True}

    @staticmethod
    def use(op, ty):
        return {"k": "use", "ops": [op], "ty": ty}

    @staticmethod
    def mv(place):
        return {"k": "move", "place": copy.deepcopy(place)}

    @staticmethod
    def variant(adt, name, ops, ty):
        return {"k": "aggr", "ak": "adt", "adt": adt, "variant": name, "is_enum": True, "fields": ["0"] if ops else [], "args": [], "ops": ops, "ty": ty}

    @staticmethod
    def payload(place, variant, fty):
        p = copy.deepcopy(place)
        p["p"] = p["p"] + [{"as": variant}, {"f": "0", "i": 0, "ty": fty, "of": place["ty"]}]
        p["ty"] = fty
        return p

    def goto(self, target, span, at):
        return {"k": "goto", "target": target, "span": span, "inlined_at": at}

    # ------------------------------------------------------------------ the callable argument
    def callable_of(self, host, op):
        """('closure', path, creating stmt | None) / ('fn', operand) / None"""
        hm = host["mir"]
        if op.get("k") == "const":
            c = op.get("c") or {}
            if "closure" in c and c["closure"] in self.items and "mir" in self.items[c["closure"]]:
                return ("closure", c["closure"], None)
            if "fn" in c:
                return ("fn", op)
            return None
        pl = op.get("place")
        if not pl or pl["p"]:
            return None
        l = pl["l"]
        for _ in range(6):
            defs = []
            for b in hm["blocks"]:
                for s in b["stmts"]:
                    if s["k"] == "assign" and s["lhs"]["l"] == l and not s["lhs"]["p"]:
                        defs.append(s)
                t = b["term"]
                if t["k"] == "call" and t["dest"]["l"] == l:
                    defs.append(t)
            if len(defs) != 1 or defs[0]["k"] != "assign":
                return None
            rv = defs[0]["rv"]
            if rv["k"] == "aggr" and rv.get("ak") == "closure" and rv.get("closure") in self.items and "mir" in self.items[rv["closure"]]:
                return ("closure", rv["closure"], defs[0])
            if rv["k"] == "use" and rv["ops"] and rv["ops"][0].get("k") == "const":
                return self.callable_of(host, rv["ops"][0])
            if rv["k"] == "use" and rv["ops"] and rv["ops"][0].get("place") and not rv["ops"][0]["place"]["p"]:
                l = rv["ops"][0]["place"]["l"]
                continue
            if rv["k"] == "ref" and not rv["place"]["p"]:
                # `&closure` handed to Fn::call
                l = rv["place"]["l"]
                continue
            if rv["k"] == "ref" and rv["place"]["p"] == ["*"]:
                # a re-borrow `&*r`
                l = rv["place"]["l"]
                continue
            src = rv["place"] if rv["k"] == "ref" else (rv["ops"][0].get("place") if rv["k"] == "use" and rv["ops"] else None)
            if src and src["l"] == 1 and host.get("kind") == "closure":
                return self._captured_closure(host, src)
            return None
        return None

    def _captured_closure(self, host, src):
        """the operand is (a reference to) a closure value that the host closure captured: identify that closure by its
        type and express its captures as places of the host (`(*(*_1).^f).^x`)"""
        proj = src["p"]
        k0 = next((k for k, e in enumerate(proj) if isinstance(e, dict) and str(e.get("f", "")).startswith("^")), None)
        if k0 is None or k0 > 1 or any(e != "*" for e in proj[k0 + 1:]):
            return None
        fty = str(proj[k0].get("ty", ""))
        k_ = fty.find("{closure@")
        if k_ < 0:
            return None
        cty = fty[k_:]
        cpath = self.closure_by_ty.get(cty)
        if not cpath or cpath == host["path"] or "mir" not in self.items.get(cpath, {}):
            return None
        # the place of the closure VALUE: the captured field, dereferenced as often as it is a reference
        nref = 0
        t_ = fty
        while t_.startswith("&"):
            t_ = t_[1:].lstrip()
            if t_.startswith("mut "):
                t_ = t_[4:]
            nref += 1
        env = {"l": 1, "p": copy.deepcopy(proj[: k0 + 1]) + ["*"] * nref, "ty": cty}
        caps = self.items[cpath].get("captures") or []
        up = {}
        for k, c in enumerate(caps):
            cap_ty = c.get("ty")
            kind = str(c.get("kind", ""))
            if kind.startswith("ByRef"):
                cap_ty = ("&mut " if "Mut" in kind and "Immutable" not in kind else "&") + str(cap_ty)
            pl = {"l": 1, "p": copy.deepcopy(env["p"]) + [{"f": "^" + str(c.get("name")), "i": k, "ty": cap_ty, "of": cty}], "ty": cap_ty}
            up[k] = ("val", pl)
        return ("closure", cpath, None, up)

    def upvar_map(self, host, clos_path, stmt):
        """capture index -> ('val', place) | ('ref', place, temp place)"""
        if stmt is None:
            return {}
        hm = host["mir"]
        caps = self.items[clos_path].get("captures") or []
        out = {}
        for k, o in enumerate(stmt["rv"]["ops"]):
            pl = o.get("place")
            if not pl:
                continue
            kind = caps[k]["kind"] if k < len(caps) else ""
            if kind.startswith("ByRef") or (not kind and str(pl["ty"]).startswith("&")):
                # the operand is a temporary holding `&x` / `&mut x`
                if pl["p"]:
                    continue
                defs = [s for b in hm["blocks"] for s in b["stmts"] if s["k"] == "assign" and s["lhs"]["l"] == pl["l"] and not s["lhs"]["p"]]
                if len(defs) == 1 and defs[0]["rv"]["k"] == "ref":
                    out[k] = ("ref", defs[0]["rv"]["place"], pl)
            else:
                out[k] = ("val", pl)
        return out

    def invoke(self, host, callee, args, dest, target, span, at, env_local=None):
        """code that calls `callee` with operands `args`, storing into place `dest`, continuing at block
        `target`; returns the entry block index"""
        hm = host["mir"]
        if callee[0] == "fn":
            return self.new_block(hm, [], {"k": "call", "func": copy.deepcopy(callee[1]), "args": [copy.deepcopy(a) for a in args], "dest": copy.deepcopy(dest), "target": target, "unwind": None, "span": span, "inlined_at": at})
        cpath, stmt = callee[1], callee[2]
        g = self.items[cpath]
        gm = g["mir"]
        up = callee[3] if len(callee) > 3 else self.upvar_map(host, cpath, stmt)
        # environment argument
        env_ty = gm["locals"][1]["ty"] if gm["arg_count"] >= 1 else None
        env_op = None
        pre = []
        if env_ty is not None:
            if stmt is not None:
                cl_place = stmt["lhs"]
                if str(env_ty).startswith("&"):
                    t = self.new_local(hm, env_ty)
                    pre.append(self.assign(self.P(t, env_ty), {"k": "ref", "bk": "mut" if str(env_ty).startswith("&mut") else "shared", "place": copy.deepcopy(cl_place), "ty": env_ty}, span, at))
                    env_op = self.mv(self.P(t, env_ty))
                else:
                    env_op = {"k": "copy", "place": copy.deepcopy(cl_place)}
            else:
                env_op = {"k": "const", "c": {"ty": env_ty, "s": "const {closure}"}}
        call = {"args": ([env_op] if env_op is not None else []) + [copy.deepcopy(a) for a in args], "dest": copy.deepcopy(dest), "target": target, "unwind": None, "span": span, "inlined_at": at}
        B0, binds = self.inl.splice(host, cpath, call, upvars=up or None)
        self.closure_uses.setdefault(cpath, 0)
        return self.new_block(hm, pre + binds, self.goto(B0, span, at))

    # ------------------------------------------------------------------ one site
    def lower_site(self, host, bi):
        hm = host["mir"]
        blk = hm["blocks"][bi]
        t = blk["term"]
        f = t.get("func") or {}
        c = f.get("c") or {}
        if t["k"] != "call" or f.get("k") != "const" or "fn" not in c:
            return False
        key = _short_fn(c["fn"])
        if key in DIRECT_CALLS and t.get("target") is not None and len(t["args"]) == 2:
            # a closure bound to a variable and called like a function: splice its body
            cal = self.callable_of(host, t["args"][0])
            if cal is None or cal[0] != "closure":
                return False
            gm = self.items[cal[1]]["mir"]
            tup = t["args"][1].get("place")
            n = gm["arg_count"] - 1
            if n > 0 and not tup:
                return False
            ops = []
            for k in range(n):
                fty = gm["locals"][2 + k]["ty"]
                pl = copy.deepcopy(tup)
                pl["p"] = pl["p"] + [{"f": str(k), "i": k, "ty": fty, "of": tup["ty"]}]
                pl["ty"] = fty
                ops.append({"k": "move", "place": pl})
            span = t.get("span")
            at = t.get("inlined_at") or span
            entry = self.invoke(host, cal, ops, t["dest"], t["target"], span, at)
            blk["term"] = {"k": "goto", "target": entry, "span": span, "inlined_at": at, "lowered_call": key}
            self.lowered.append((host["path"], key))
            self.closure_uses[cal[1]] = self.closure_uses.get(cal[1], 0) + 1
            return True
        if key not in ADAPTORS or t.get("target") is None:
            return False
        fam, name = ADAPTORS[key]
        args = t["args"]
        if not args or not args[0].get("place"):
            return False
        recv = args[0]["place"]
        span = t.get("span")
        at = t.get("inlined_at") or span
        dest = t["dest"]
        nxt = t["target"]
        # callables
        cidx = {"map_or": [2], "map_or_else": [1, 2]}.get(name, [1])
        if max(cidx) >= len(args):
            return False
        callees = {}
        for i in cidx:
            cal = self.callable_of(host, args[i])
            if cal is None:
                return False
            callees[i] = cal
        rty = str(recv["ty"])
        ga = split_generic_args(rty)
        dty = str(dest["ty"])
        entry = None
        if fam == "opt":
            if not rty.startswith(OPT + "<") or len(ga) != 1:
                return False
            T = ga[0]
            x = self.payload(recv, "Some", T)
            some_args = [self.mv(x)]
            if name == "map":
                U = split_generic_args(dty)
                if len(U) != 1:
                    return False
                r = self.new_local(hm, U[0])
                b_wrap = self.new_block(hm, [self.assign(copy.deepcopy(dest), self.variant(OPT, "Some", [self.mv(self.P(r, U[0]))], dty), span, at)], self.goto(nxt, span, at))
                b_some = self.invoke(host, callees[1], some_args, self.P(r, U[0]), b_wrap, span, at)
                b_none = self.new_block(hm, [self.assign(copy.deepcopy(dest), self.variant(OPT, "None", [], dty), span, at)], self.goto(nxt, span, at))
            elif name == "and_then":
                b_some = self.invoke(host, callees[1], some_args, dest, nxt, span, at)
                b_none = self.new_block(hm, [self.assign(copy.deepcopy(dest), self.variant(OPT, "None", [], dty), span, at)], self.goto(nxt, span, at))
            elif name == "map_or":
                b_some = self.invoke(host, callees[2], some_args, dest, nxt, span, at)
                b_none = self.new_block(hm, [self.assign(copy.deepcopy(dest), self.use(copy.deepcopy(args[1]), dty), span, at)], self.goto(nxt, span, at))
            elif name == "map_or_else":
                b_some = self.invoke(host, callees[2], some_args, dest, nxt, span, at)
                b_none = self.invoke(host, callees[1], [], dest, nxt, span, at)
            elif name == "unwrap_or_else":
                b_some = self.new_block(hm, [self.assign(copy.deepcopy(dest), self.use(self.mv(x), dty), span, at)], self.goto(nxt, span, at))
                b_none = self.invoke(host, callees[1], [], dest, nxt, span, at)
            elif name == "ok_or_else":
                E = split_generic_args(dty)
                if len(E) != 2:
                    return False
                e = self.new_local(hm, E[1])
                b_some = self.new_block(hm, [self.assign(copy.deepcopy(dest), self.variant(RES, "Ok", [self.mv(x)], dty), span, at)], self.goto(nxt, span, at))
                b_wrap = self.new_block(hm, [self.assign(copy.deepcopy(dest), self.variant(RES, "Err", [self.mv(self.P(e, E[1]))], dty), span, at)], self.goto(nxt, span, at))
                b_none = self.invoke(host, callees[1], [], self.P(e, E[1]), b_wrap, span, at)
            elif name == "is_some_and":
                b_some = self.invoke(host, callees[1], some_args, dest, nxt, span, at)
                b_none = self.new_block(hm, [self.assign(copy.deepcopy(dest), self.use({"k": "const", "c": {"ty": "bool", "s": "const false", "bits": "0", "int": "0"}}, "bool"), span, at)], self.goto(nxt, span, at))
            elif name == "or_else":
                b_some = self.new_block(hm, [self.assign(copy.deepcopy(dest), self.use(self.mv(recv), dty), span, at)], self.goto(nxt, span, at))
                b_none = self.invoke(host, callees[1], [], dest, nxt, span, at)
            else:
                return False
            d = self.new_local(hm, "isize")
            entry = self.new_block(hm, [self.assign(self.P(d, "isize"), {"k": "discr", "place": copy.deepcopy(recv), "ty": "isize"}, span, at)], {"k": "switch", "discr": self.mv(self.P(d, "isize")), "discr_ty": "isize", "targets": [["0", b_none]], "otherwise": b_some, "span": span, "inlined_at": at})
        elif fam == "res":
            if not rty.startswith(RES + "<") or len(ga) != 2:
                return False
            T, E = ga
            x = self.payload(recv, "Ok", T)
            e = self.payload(recv, "Err", E)
            if name == "map":
                U = split_generic_args(dty)
                if len(U) != 2:
                    return False
                r = self.new_local(hm, U[0])
                b_wrap = self.new_block(hm, [self.assign(copy.deepcopy(dest), self.variant(RES, "Ok", [self.mv(self.P(r, U[0]))], dty), span, at)], self.goto(nxt, span, at))
                b_ok = self.invoke(host, callees[1], [self.mv(x)], self.P(r, U[0]), b_wrap, span, at)
                b_err = self.new_block(hm, [self.assign(copy.deepcopy(dest), self.variant(RES, "Err", [self.mv(e)], dty), span, at)], self.goto(nxt, span, at))
            elif name == "map_err":
                U = split_generic_args(dty)
                if len(U) != 2:
                    return False
                r = self.new_local(hm, U[1])
                b_wrap = self.new_block(hm, [self.assign(copy.deepcopy(dest), self.variant(RES, "Err", [self.mv(self.P(r, U[1]))], dty), span, at)], self.goto(nxt, span, at))
                b_err = self.invoke(host, callees[1], [self.mv(e)], self.P(r, U[1]), b_wrap, span, at)
                b_ok = self.new_block(hm, [self.assign(copy.deepcopy(dest), self.variant(RES, "Ok", [self.mv(x)], dty), span, at)], self.goto(nxt, span, at))
            elif name == "and_then":
                b_ok = self.invoke(host, callees[1], [self.mv(x)], dest, nxt, span, at)
                b_err = self.new_block(hm, [self.assign(copy.deepcopy(dest), self.variant(RES, "Err", [self.mv(e)], dty), span, at)], self.goto(nxt, span, at))
            elif name == "unwrap_or_else":
                b_ok = self.new_block(hm, [self.assign(copy.deepcopy(dest), self.use(self.mv(x), dty), span, at)], self.goto(nxt, span, at))
                b_err = self.invoke(host, callees[1], [self.mv(e)], dest, nxt, span, at)
            else:
                return False
            d = self.new_local(hm, "isize")
            entry = self.new_block(hm, [self.assign(self.P(d, "isize"), {"k": "discr", "place": copy.deepcopy(recv), "ty": "isize"}, span, at)], {"k": "switch", "discr": self.mv(self.P(d, "isize")), "discr_ty": "isize", "targets": [["0", b_ok]], "otherwise": b_err, "span": span, "inlined_at": at})
        else:
            # loops over Iterator::next
            cal = callees[1]
            if cal[0] == "closure":
                gm = self.items[cal[1]]["mir"]
                if gm["arg_count"] < 2:
                    return False
                item_ty = gm["locals"][2]["ty"]
                ret_ty = gm["locals"][0]["ty"]
            else:
                return False
            opt_ty = "%s<%s>" % (OPT, item_ty)
            it_ty = rty
            it_place = copy.deepcopy(recv)
            if rty.startswith("&mut "):
                # try_for_each takes `&mut self`: re-borrow the iterator behind the reference
                it_ty = rty[5:]
                it_place["p"] = it_place["p"] + ["*"]
                it_place["ty"] = it_ty
            r = self.new_local(hm, "&mut " + it_ty)
            o = self.new_local(hm, opt_ty)
            d = self.new_local(hm, "isize")
            res = self.new_local(hm, ret_ty)
            next_fn = {"k": "const", "c": {"ty": "fn", "s": "<%s as std::iter::Iterator>::next" % it_ty, "fn": "std::iter::Iterator::next", "fn_full": "<%s as std::iter::Iterator>::next" % it_ty, "args": [it_ty], "krate": "core", "local": False, "trait": "std::iter::Iterator"}}
            # header: o = next(&mut it)
            hdr = self.new_block(hm, [self.assign(self.P(r, "&mut " + it_ty), {"k": "ref", "bk": "mut", "place": it_place, "ty": "&mut " + it_ty}, span, at)], None)
            sw = self.new_block(hm, [self.assign(self.P(d, "isize"), {"k": "discr", "place": self.P(o, opt_ty), "ty": "isize"}, span, at)], None)
            hm["blocks"][hdr]["term"] = {"k": "call", "func": next_fn, "args": [self.mv(self.P(r, "&mut " + it_ty))], "dest": self.P(o, opt_ty), "target": sw, "unwind": None, "span": span, "inlined_at": at}
            item = self.payload(self.P(o, opt_ty), "Some", item_ty)
            if name == "for_each":
                b_exit = self.new_block(hm, [self.assign(copy.deepcopy(dest), {"k": "aggr", "ak": "tuple", "ops": [], "ty": "()"}, span, at)], self.goto(nxt, span, at))
                b_body = self.invoke(host, cal, [self.mv(item)], self.P(res, ret_ty), hdr, span, at)
            else:
                # try_for_each over Result<(), E>: stop at the first Err and return it
                if not str(ret_ty).startswith(RES + "<"):
                    return False
                d2 = self.new_local(hm, "isize")
                b_exit = self.new_block(hm, [self.assign(copy.deepcopy(dest), self.variant(RES, "Ok", [{"k": "const", "c": {"ty": "()", "s": "const ()"}}], dty), span, at)], self.goto(nxt, span, at))
                b_fail = self.new_block(hm, [self.assign(copy.deepcopy(dest), self.use(self.mv(self.P(res, ret_ty)), dty), span, at)], self.goto(nxt, span, at))
                b_chk = self.new_block(hm, [self.assign(self.P(d2, "isize"), {"k": "discr", "place": self.P(res, ret_ty), "ty": "isize"}, span, at)], {"k": "switch", "discr": self.mv(self.P(d2, "isize")), "discr_ty": "isize", "targets": [["0", hdr]], "otherwise": b_fail, "span": span, "inlined_at": at})
                b_body = self.invoke(host, cal, [self.mv(item)], self.P(res, ret_ty), b_chk, span, at)
            hm["blocks"][sw]["term"] = {"k": "switch", "discr": self.mv(self.P(d, "isize")), "discr_ty": "isize", "targets": [["0", b_exit]], "otherwise": b_body, "span": span, "inlined_at": at}
            entry = hdr
        blk["term"] = {"k": "goto", "target": entry, "span": span, "inlined_at": at, "lowered_call": key}
        self.lowered.append((host["path"], key))
        for i, cal in callees.items():
            if cal[0] == "closure":
                self.closure_uses[cal[1]] = self.closure_uses.get(cal[1], 0) + 1
        return True

    # ------------------------------------------------------------------ driver
    def run(self):
        # innermost closures first, so that a closure body is already lowered when it is spliced
        order = []
        seen = set()

        def visit(p):
            if p in seen:
                return
            seen.add(p)
            for c in self.by_parent.get(p, []):
                visit(c)
            order.append(p)

        for p in list(self.items):
            if "mir" in self.items[p]:
                visit(p)
        for p in order:
            it = self.items.get(p)
            if not it or "mir" not in it:
                continue
            guard = 0
            progress = True
            while progress and guard < 300:
                progress = False
                guard += 1
                for b in it["mir"]["blocks"]:
                    if b["term"]["k"] == "call" and not b.get("cleanup") and self.lower_site(it, b["i"]):
                        progress = True
                        break
        self._drop_dead_closures()
        self.facts["lowered"] = sorted({(h, k) for (h, k) in self.lowered})
        return self.facts

    def _drop_dead_closures(self):
        """a closure whose value is no longer passed anywhere (every use was lowered) is not a body of the
        program any more; its creating aggregate becomes a plain tuple of the captured operands"""
        for cpath, n in list(self.closure_uses.items()):
            it = self.items.get(cpath)
            if not it or n == 0:
                continue
            parent = self.items.get(it.get("parent"))
            if not parent or "mir" not in parent:
                continue
            hm = parent["mir"]
            creators = []
            for b in hm["blocks"]:
                for s in b["stmts"]:
                    if s["k"] == "assign" and s["rv"]["k"] == "aggr" and s["rv"].get("ak") == "closure" and s["rv"].get("closure") == cpath:
                        creators.append(s)
            locals_ = set()
            for s in creators:
                if s["lhs"]["p"]:
                    locals_ = None
                    break
                locals_.add(s["lhs"]["l"])
            if locals_ is None:
                continue
            # any remaining use of the closure value (other than the env binding we created)?
            used = False
            const_used = False

            def scan(d):
                nonlocal used, const_used
                if isinstance(d, dict) and d.get("k") == "const" and isinstance(d.get("c"), dict) and d["c"].get("closure") == cpath:
                    const_used = True

            for b in hm["blocks"]:
                t = b["term"]
                if t["k"] == "call":
                    for a in t["args"]:
                        pl = a.get("place")
                        if pl and not pl["p"] and pl["l"] in self._copies(hm, locals_):
                            used = True
                        _walk(a, scan)
                for s in b["stmts"]:
                    _walk(s, scan)
            if used or const_used:
                continue
            for s in creators:
                s["rv"] = {"k": "aggr", "ak": "tuple", "ops": s["rv"]["ops"], "ty": s["rv"].get("ty")}
            remove = {cpath} | set(_closures_under(self.by_parent, cpath))
            self.facts["items"] = [x for x in self.facts["items"] if x["path"] not in remove]
            for r in remove:
                self.items.pop(r, None)

    @staticmethod
    def _copies(hm, locals_):
        out = set(locals_)
        changed = True
        while changed:
            changed = False
            for b in hm["blocks"]:
                for s in b["stmts"]:
                    if s["k"] == "assign" and not s["lhs"]["p"] and s["rv"]["k"] == "use" and s["rv"]["ops"] and s["rv"]["ops"][0].get("place") and not s["rv"]["ops"][0]["place"]["p"] and s["rv"]["ops"][0]["place"]["l"] in out and s["lhs"]["l"] not in out and not s.get("lowered"):
                        out.add(s["lhs"]["l"])
                        changed = True
                    elif s["k"] == "assign" and not s["lhs"]["p"] and s["rv"]["k"] == "ref" and s["rv"].get("place") and not s["rv"]["place"]["p"] and s["rv"]["place"]["l"] in out and s["lhs"]["l"] not in out and not s.get("lowered"):
                        # `&closure` (handed to an adaptor as `.map(&f)`) is a use of the closure value as well
                        out.add(s["lhs"]["l"])
                        changed = True
        return out
