#![allow(non_camel_case_types)]
//! Type-level witnesses for graphrs (compile-only: every doctest here is `compile_fail` or `no_run`;
//! no graphrs code is executed).  Each `compile_fail,E0xxx` witness is paired with a compiling twin
//! that differs only in the offending line, so a witness cannot pass for the wrong reason.
//! Run with `cargo +nightly test --doc --offline` (the stable toolchain ignores the error codes).

/// W1 (C07-P2): a graph can be shared between threads -- `Graph` is `Send + Sync` for the usual
/// name/attribute types.
/// ```no_run
/// fn assert_send_sync<T: Send + Sync>() {}
/// assert_send_sync::<graphrs::Graph<String, ()>>();
/// assert_send_sync::<graphrs::Graph<i32, ()>>();
/// assert_send_sync::<graphrs::Graph<&'static str, Vec<u8>>>();
/// ```
pub struct W1SendSync;

/// W2 (C07-P2, C15-1): mutation needs `&mut Graph`; through a shared reference it does not type-check.
/// ```compile_fail,E0596
/// use graphrs::{Graph, GraphSpecs, Node};
/// let g: Graph<&str, ()> = Graph::new(GraphSpecs::directed_create_missing());
/// let r = &g;
/// r.add_node(Node::from_name("a"));
/// ```
/// twin (compiles):
/// ```no_run
/// use graphrs::{Graph, GraphSpecs, Node};
/// let mut g: Graph<&str, ()> = Graph::new(GraphSpecs::directed_create_missing());
/// let r = &mut g;
/// r.add_node(Node::from_name("a"));
/// ```
pub struct W2NoMutationThroughSharedRef;

/// W2b: the same for `add_edge`.
/// ```compile_fail,E0596
/// use graphrs::{Edge, Graph, GraphSpecs};
/// let g: Graph<&str, ()> = Graph::new(GraphSpecs::directed_create_missing());
/// let r = &g;
/// let _ = r.add_edge(Edge::new("a", "b"));
/// ```
/// twin (compiles):
/// ```no_run
/// use graphrs::{Edge, Graph, GraphSpecs};
/// let mut g: Graph<&str, ()> = Graph::new(GraphSpecs::directed_create_missing());
/// let r = &mut g;
/// let _ = r.add_edge(Edge::new("a", "b"));
/// ```
pub struct W2bNoEdgeMutationThroughSharedRef;

/// W5 (C15-1): the derived-graph functions work through a shared reference to the source.
/// ```no_run
/// use graphrs::{Graph, GraphSpecs};
/// let g: Graph<&str, ()> = Graph::new(GraphSpecs::directed_create_missing());
/// let r = &g;
/// let _ = r.reverse();
/// let _ = r.set_all_edge_weights(1.0);
/// let _ = r.to_single_edges();
/// let _ = r.get_subgraph(&["a"]);
/// ```
pub struct W5DerivedThroughSharedRef;

/// W3 (C02-1): the index field `nodes_map` is private.
/// ```compile_fail,E0616
/// use graphrs::{Graph, GraphSpecs};
/// let g: Graph<&str, ()> = Graph::new(GraphSpecs::directed_create_missing());
/// let _ = &g.nodes_map;
/// ```
pub struct W3Private_nodes_map;

/// W3 (C02-1): the index field `nodes_map_rev` is private.
/// ```compile_fail,E0616
/// use graphrs::{Graph, GraphSpecs};
/// let g: Graph<&str, ()> = Graph::new(GraphSpecs::directed_create_missing());
/// let _ = &g.nodes_map_rev;
/// ```
pub struct W3Private_nodes_map_rev;

/// W3 (C02-1): the index field `nodes_vec` is private.
/// ```compile_fail,E0616
/// use graphrs::{Graph, GraphSpecs};
/// let g: Graph<&str, ()> = Graph::new(GraphSpecs::directed_create_missing());
/// let _ = &g.nodes_vec;
/// ```
pub struct W3Private_nodes_vec;

/// W3 (C02-1): the index field `edges` is private.
/// ```compile_fail,E0616
/// use graphrs::{Graph, GraphSpecs};
/// let g: Graph<&str, ()> = Graph::new(GraphSpecs::directed_create_missing());
/// let _ = &g.edges;
/// ```
pub struct W3Private_edges;

/// W3 (C02-1): the index field `edges_map` is private.
/// ```compile_fail,E0616
/// use graphrs::{Graph, GraphSpecs};
/// let g: Graph<&str, ()> = Graph::new(GraphSpecs::directed_create_missing());
/// let _ = &g.edges_map;
/// ```
pub struct W3Private_edges_map;

/// W3 (C02-1): the index field `successors` is private.
/// ```compile_fail,E0616
/// use graphrs::{Graph, GraphSpecs};
/// let g: Graph<&str, ()> = Graph::new(GraphSpecs::directed_create_missing());
/// let _ = &g.successors;
/// ```
pub struct W3Private_successors;

/// W3 (C02-1): the index field `successors_map` is private.
/// ```compile_fail,E0616
/// use graphrs::{Graph, GraphSpecs};
/// let g: Graph<&str, ()> = Graph::new(GraphSpecs::directed_create_missing());
/// let _ = &g.successors_map;
/// ```
pub struct W3Private_successors_map;

/// W3 (C02-1): the index field `successors_vec` is private.
/// ```compile_fail,E0616
/// use graphrs::{Graph, GraphSpecs};
/// let g: Graph<&str, ()> = Graph::new(GraphSpecs::directed_create_missing());
/// let _ = &g.successors_vec;
/// ```
pub struct W3Private_successors_vec;

/// W3 (C02-1): the index field `predecessors` is private.
/// ```compile_fail,E0616
/// use graphrs::{Graph, GraphSpecs};
/// let g: Graph<&str, ()> = Graph::new(GraphSpecs::directed_create_missing());
/// let _ = &g.predecessors;
/// ```
pub struct W3Private_predecessors;

/// W3 (C02-1): the index field `predecessors_map` is private.
/// ```compile_fail,E0616
/// use graphrs::{Graph, GraphSpecs};
/// let g: Graph<&str, ()> = Graph::new(GraphSpecs::directed_create_missing());
/// let _ = &g.predecessors_map;
/// ```
pub struct W3Private_predecessors_map;

/// W3 (C02-1): the index field `predecessors_vec` is private.
/// ```compile_fail,E0616
/// use graphrs::{Graph, GraphSpecs};
/// let g: Graph<&str, ()> = Graph::new(GraphSpecs::directed_create_missing());
/// let _ = &g.predecessors_vec;
/// ```
pub struct W3Private_predecessors_vec;

/// twin of all W3 witnesses: the one public field can be read.
/// ```no_run
/// use graphrs::{Graph, GraphSpecs};
/// let g: Graph<&str, ()> = Graph::new(GraphSpecs::directed_create_missing());
/// let _ = &g.specs;
/// ```
pub struct W3TwinPublicSpecs;

/// W6 (C02-1): the internal adjacency record is not part of the public API.
/// ```compile_fail,E0603
/// use graphrs::AdjacentNode;
/// ```
pub struct W6AdjacentNodePrivate;
